#!/bin/bash
# Idempotent bootstrap of the overlay venv used by every check (offline: wheelhouse only).
set -e
V=/verif/.venv
if [ ! -x "$V/bin/python" ] || ! "$V/bin/python" -c "import crosshair, z3" 2>/dev/null; then
  exec 9>/tmp/.verif_venv.lock
  flock 9
  if [ ! -x "$V/bin/python" ] || ! "$V/bin/python" -c "import crosshair, z3" 2>/dev/null; then
    rm -rf "$V"
    /venv/bin/python -m venv "$V"
    SP=$("$V/bin/python" -c "import sysconfig; print(sysconfig.get_paths()['purelib'])")
    printf "import site; site.addsitedir('/venv/lib/python3.12/site-packages')\n/repo\n" > "$SP/_overlay.pth"
    PIP_NO_INDEX=1 "$V/bin/pip" install -q --no-index --find-links /opt/veriftools/wheels crosshair-tool z3-solver >/dev/null
  fi
  flock -u 9
fi
"$V/bin/python" -c "import crosshair, z3" 2>/dev/null
