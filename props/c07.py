from vlib.e1 import Ob, run_obligations

TECHNIQUE = 'CrossHair symbolic execution (z3 strings) of normalize_path lemmas and of the redirect branch of Application.dispatch on a symbolic path; solver-driven case splits over URL-significant segments, slash multiplicities, query strings, methods and slash-mode configurations executed end to end (request -> Location -> request)'
LEVEL = 'model_checking'


def run(ctx):
    T = ctx.thorough
    tmo = 900 if T else 100
    L = 6 if T else 5
    ncell = lambda name: [('len%d_%s' % (n, b), ['len(p) == %d' % n, 'branch == %s' % b]) for n in range(L + 1) for b in (False, True)]
    pre = ['len(p) <= %d' % L, 'all(c in "/ab" for c in p)']
    import harness.c07 as H
    NSG, NQ = len(H.SEGS), len(H.QS)
    obs = [
        Ob('norm_idempotent', 'ob_norm_idempotent', 'p: str, branch: bool', pre=pre, cells=ncell('i'), timeout=tmo, twin_fn='tw_norm', twin_pre=['len(p) == 3', 'branch == True'],
           desc='normalize_path(normalize_path(p)) == normalize_path(p): the canonical path is a fixed point, so a followed redirect cannot redirect again'),
        Ob('norm_shape', 'ob_norm_shape', 'p: str, branch: bool', pre=pre, cells=ncell('s'), timeout=tmo,
           desc='result starts with "/", has no "//", ends with "/" iff branch, keeps the non-empty segments in order'),
        Ob('norm_fixed_point', 'ob_norm_fixed_point', 'p: str, branch: bool', pre=pre, cells=ncell('f'), timeout=tmo,
           desc='normalize_path(p) == p exactly for canonical paths'),
        Ob('decision', 'ob_decision', 'path: str', packed=[('mode_i', 3), ('branch', 2, 'bool'), ('allowed', 2, 'bool'), ('qs_i', 3)],
           pre=['len(path) <= 4', 'all(c in "/a?" for c in path)', 'len(path) >= 1', 'path[0] == "/"'],
           cells=[('mode%d_b%d_a%d_len%d' % (m, b, a, n), [{'mode_i': m, 'branch': b, 'allowed': a}, 'len(path) == %d' % n])
                  for m in range(3) for b in range(2) for a in range(2) for n in range(1, 5 if T else 4)],
           timeout=tmo, twin_fn='tw_decision', twin_pre=[{'mode_i': 0, 'branch': 1, 'allowed': 1}, 'len(path) == 3'],
           desc='the slash block of dispatch on a stub route and a symbolic path: one redirect to url_root + quoted canonical path (+ ?query) iff redirect mode, '
                'branch, method admitted, path not canonical; rewrite executes the route; strict records a non-breaking 404; nothing for inadmissible methods'),
        Ob('one_hop', 'ob_one_hop', '', packed=[('app_i', 7), ('kind_i', 6), ('seg_i', 12 if T else 9), ('method_i', 4 if T else 2), ('seg2_i', 2), ('sl', 3), ('trail', 3), ('qs_i', 5 if T else 4)],
           cells=[('app%d_kind%d_seg%d' % (a, k, s), [{'app_i': a, 'kind_i': k, 'seg_i': s}]) for a in range(7) for k in range(6) for s in range(NSG if T else 9)
                  if (a == 0 or k == 1 or (a >= 5 and k == 3))] if not T else
                 [('app%d_kind%d_seg%d_m%d' % (a, k, s, m), [{'app_i': a, 'kind_i': k, 'seg_i': s, 'method_i': m}]) for a in range(7) for k in range(6) for s in range(12) for m in range(4)
                  if (a < 3 or k == 1 or (a >= 5 and k == 3))],
           timeout=tmo, confirm='confirm_one_hop',
           desc='end to end on real applications (redirect / rewrite / strict; slash mode inherited and not inherited through embedding): static, single-binding, '
                'multi-binding, leaf and GET-only routes; decoded segments with ? # %% %%41 space non-ASCII (thorough: + ; & = + %%2F . =); repeated leading/inner slashes, 0-2 trailing; '
                'query strings; methods: a 30x only for redirect mode + branch + admitted method + non-canonical path; following it yields 200 at exactly the canonical decoded '
                'path with the same query; never a second redirect'),
    ]
    res = run_obligations('C07', 'harness.c07', obs, ctx.tier)
    res.functions_encoded += ['clastic.route.normalize_path', 'Application.dispatch (slash/redirect block)', 'BoundRoute.slash_mode inheritance (inherit_slashes)', 'werkzeug redirect/url_quote as used by dispatch (real, end to end)']
    res.bounds.update(dict(normalize_path='p <= %d chars over {/ a b}' % L, decision='path <= 4 chars over {/ a ?} starting with /', one_hop='%d segments x %d queries x 4 methods x slash multiplicities x 5 configurations' % (NSG, NQ)))
    res.outside += ['Werkzeug Location rewriting in get_wsgi_headers', 'IDNA hosts', 'raw non-ASCII query bytes are compared after percent-decoding']
    return res
