from vlib.e3_driver import collect

TECHNIQUE = 'z3 over the generated chain sources of real bound routes: event trace (z3 Seq) and outcome for ALL behaviour vectors of the user functions (ite-merged) must equal an independently defined onion; validated against real executions'
LEVEL = 'model_checking'
ENGINE = 'E3'


def run(ctx):
    return collect('C03', ctx, ('c03',), 'onion')
