from vlib.e3_driver import collect

TECHNIQUE = 'z3 over the generated chain sources of real bound routes: event trace (z3 Seq) and outcome for ALL behaviour vectors of the user functions (ite-merged) must equal an independently defined onion; validated against real executions; plus CrossHair/z3 case splits over middleware-list configurations (levels, unique/non-unique/subclass/same-named/callable-object kinds) executed on the real merge and chains'
LEVEL = 'model_checking'
ENGINE = 'E3'


def run(ctx):
    res = collect('C03', ctx, ('c03',), 'onion')
    from vlib.e1 import Ob, run_obligations
    import harness.c03 as H
    NL = H.NLISTS
    tmo = 900 if ctx.thorough else 100
    obs = [
        Ob('merge_levels', 'ob_merge', '', packed=[('outer_i', NL), ('inner_i', NL), ('mid_sel', (4 + NL) if ctx.thorough else 4)],
           cells=([('outer%d_inner%d' % (i, j), [{'outer_i': i, 'inner_i': j}]) for i in range(NL) for j in range(NL)] if ctx.thorough else [('outer%d' % i, [{'outer_i': i}]) for i in range(NL)]), timeout=tmo, twin_fn='tw_merge', twin_pre=[{'outer_i': 7, 'inner_i': 8} if ctx.thorough else {'outer_i': 7}], confirm='confirm_merge',
           desc='application-level, (embedded application-level,) route-level middleware lists of <= 2 instances over 5 types (two unrelated unique types, a unique '
                'SUBCLASS of one of them, a non-unique type, a non-reorderable unique type): the request middlewares actually run in the order "outermost '
                'list first, a unique type once at its outermost position"; ValueError exactly for a repeated non-reorderable unique type'),
        Ob('merge_unit', 'ob_merge_unit', '', packed=[('new_i', NL), ('old_i', NL)], cells=[('new%d' % i, [{'new_i': i}]) for i in range(NL)], timeout=tmo,
           desc='merge_middlewares(old, new) on the same catalogue; the input list is not mutated'),
    ]
    NSP = H.NSP
    obs.append(Ob('special_kinds', 'ob_special', '', packed=[('outer_i', NSP), ('mid_sel', 4), ('inner_i', NSP)], cells=[('outer%d' % i, [{'outer_i': i}]) for i in range(NSP)], timeout=tmo, confirm='confirm_special',
                  desc='application / embedded application / route lists (<= 2) over: two DISTINCT classes sharing one __name__, a class whose request/endpoint/render hooks are callable objects set per instance, '
                       'a non-unique class (up to 5 instances in one stack): the full enter/leave trace of all three phases equals the onion of the merged list'))
    res.merge(run_obligations('C03', 'harness.c03', obs, ctx.tier))
    res.functions_encoded += ['clastic.middleware.core.merge_middlewares', 'Middleware.__eq__/__ne__', 'BoundRoute.__init__ (merge call)', 'SubApplication.bind_all']
    res.bounds.update(dict(merge='lists of <= 2 middleware instances per level over 5 types, 2 or 3 levels'))
    res.outside += ["one level's own list containing the same unique type twice (no documented outcome)"]
    return res
