from vlib.e1 import Ob, run_obligations

TECHNIQUE = 'CrossHair symbolic execution (z3) of each built-in middleware\'s request/render function over symbolic selectors of what next() produces, with a contract stub for zlib'
LEVEL = 'model_checking'


def run(ctx):
    T = ctx.thorough
    tmo = 900 if T else 100
    obs = [
        Ob('gzip', 'ob_gzip', 'kind: int, body_i: int, ctype_i: int, q: int, browser_i: int, comp_rel: int, pre_encoded: bool',
           pre=['0 <= kind <= 8', '0 <= body_i <= 3', '0 <= ctype_i <= 2', '0 <= q <= 1', '0 <= browser_i <= 2', '-2 <= comp_rel <= 1'],
           cells=[('kind%d_body%d' % (k, b), ['kind == %d' % k, 'body_i == %d' % b]) for k in range(9) for b in range(4 if k in (0, 1, 2, 3, 8) else 1)],
           timeout=tmo, twin_fn='tw_gzip', twin_pre=['kind == 0', 'body_i == 2'], confirm='confirm_gzip',
           desc='GzipMiddleware.request: status kept, compresses only for accepting clients, bytes sent == compressor output, '
                'Content-Length == len(sent), Vary names Accept-Encoding; otherwise body untouched; no exception for HTTPException results'),
        Ob('passthrough', 'ob_passthrough', 'mw_i: int, kind: int, raised: bool, method_i: int, cookie_i: int',
           pre=['0 <= mw_i <= 9', '0 <= kind <= 9', '0 <= method_i <= 2', '0 <= cookie_i <= 2'],
           cells=[('mw%d_kind%d' % (m, k), ['mw_i == %d' % m, 'kind == %d' % k] + ([] if m == 4 else ['cookie_i == 0']))
                  for m in range(10) for k in range(10)],
           timeout=tmo, twin_fn='tw_passthrough', twin_pre=['mw_i == 2', 'kind == 4'], confirm='confirm_passthrough',
           desc='each of the 10 built-in middlewares (default config), real Request: returns next()\'s object with the same status and '
                'decoded body, or re-raises the very exception next() raised; next() outcome in {Response 200/404/301/500, returned '
                '404/405/500/non-breaking 403, streamed, raised HTTPException, raised ValueError}'),
    ]
    if T:
        obs.append(Ob('end_to_end', 'ob_end_to_end', 'mw_i: int, path_i: int, method_i: int, gzip_ok: bool',
                      pre=['0 <= mw_i <= 9', '0 <= path_i <= 8', '0 <= method_i <= 2'],
                      cells=[('mw%d_path%d' % (m, p), ['mw_i == %d' % m, 'path_i == %d' % p]) for m in range(10) for p in range(9)],
                      timeout=tmo, desc='scenario application with vs without the middleware through the WSGI client: same status and decoded body'))
    res = run_obligations('C15', 'harness.c15', obs, ctx.tier)
    res.functions_encoded += ['GzipMiddleware.request', 'HTTPCacheMiddleware.request', 'StatsMiddleware.request', 'SimpleProfileMiddleware.request',
                              'SignedCookieMiddleware.request', 'ContextProcessor process_render_context', 'GetParamMiddleware.request',
                              'PostDataMiddleware.request', 'ScriptRootMiddleware.request']
    res.bounds.update(dict(next_outcomes='10 kinds (see desc)', bodies='4 catalogue bodies (empty, 1 byte, 40 compressible bytes, binary)',
                           gzip='quality 0/1, browser None/msie/firefox, compressor output length = len(body)+{-2..1}, pre-existing Content-Encoding'))
    res.outside += ['zlib losslessness itself (C, trusted)', 'profiler with its trigger parameter', 'conditional requests (If-None-Match) through HTTPCacheMiddleware',
                    'stacks of several middlewares (thorough: end-to-end scenario only singly)']
    res.assumptions += ['boltons.strutils.gzip_bytes stub in the gzip obligation: returns bytes of a symbolic length relation; its contract gunzip(c) == data is trusted',
                        'request stub (accept_encodings, user_agent.browser) in the gzip obligation; real werkzeug Request elsewhere']
    return res
