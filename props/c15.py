from vlib.e1 import Ob, run_obligations

TECHNIQUE = 'CrossHair symbolic execution (z3) of each built-in middleware\'s request/render function over symbolic selectors of what next() produces, with a contract stub for zlib; stub-free case splits over response sequences through one GzipMiddleware instance with real Accept-Encoding headers; end-to-end differential sweep as validation'
LEVEL = 'model_checking'


def run(ctx):
    T = ctx.thorough
    tmo = 900 if T else 100
    obs = [
        Ob('gzip', 'ob_gzip', '',
           packed=[('kind', 9), ('body_i', 4), ('ctype_i', 3), ('q', 2), ('browser_i', 3), ('comp_rel', 4), ('pre_encoded', 2, 'bool')],
           cells=[('kind%d_body%d' % (k, b), [{'kind': k, 'body_i': b}]) for k in range(9) for b in range(4 if k in (0, 1, 2, 3, 8) else 1)],
           timeout=tmo, twin_fn='tw_gzip', twin_pre=[{'kind': 0, 'body_i': 2}], confirm='confirm_gzip',
           desc='GzipMiddleware.request: status kept, compresses only for accepting clients, bytes sent == compressor output, '
                'Content-Length == len(sent), Vary names Accept-Encoding; otherwise body untouched; no exception for HTTPException results'),
        Ob('gzip_sequence', 'ob_gzip_sequence', '', packed=[('b0', 6), ('b1', 6), ('b2', 6), ('a_i', 10)], cells=[('b%d_%d' % (a, b), [{'b0': a, 'b1': b}]) for a in range(6) for b in range(6)], timeout=tmo, confirm='confirm_gzip_sequence',
           desc='ONE GzipMiddleware instance answering three responses in a row (bodies: empty, short, 64 kB repetitive, 40 kB incompressible hex, text, binary) with the real compressor and real '
                'Accept-Encoding headers (absent, gzip, gzip;q=0, identity, *, *;q=0, q-lists): a body labelled gzip decompresses to exactly that response\'s bytes and only goes to clients accepting gzip'),
        Ob('passthrough', 'ob_passthrough', '',
           packed=[('mw_i', 10), ('kind', 10), ('cookie_i', 3), ('qs_i', 7), ('raised', 2, 'bool'), ('method_i', 3)],
           cells=[('mw%d_kind%d' % (m, k), [{'mw_i': m, 'kind': k}]) for m in range(10) for k in range(10)],
           timeout=tmo, twin_fn='tw_passthrough', twin_pre=[{'mw_i': 2, 'kind': 4}], confirm='confirm_passthrough',
           desc='each of the 10 built-in middlewares (default config), real Request (3 methods x 3 cookie values x 7 query strings): returns '
                'next()\'s object with the same status and decoded body, or re-raises the very exception next() raised; next() outcome in '
                '{Response 200/404/301/500, returned 404/405/500/non-breaking 403, streamed, raised HTTPException, raised ValueError}'),
    ]
    res = run_obligations('C15', 'harness.c15', obs, ctx.tier)
    # validation leg: the scenario application with vs without each middleware through the WSGI client (plain runs)
    from concurrent.futures import ProcessPoolExecutor
    import harness.c15 as H
    from vlib.common import write_replay
    with ProcessPoolExecutor(max_workers=10) as ex:
        for n, bad in ex.map(H.end_to_end_sweep, range(10)):
            res.traces_validated += n
            kf = [f for f in __import__('vlib.common', fromlist=['open_findings']).open_findings('C15') if f.get('id') == 'C15-postdata-raw-body']
            if kf:
                known = [b for b in bad if b[0] == 8 and H._PATHS[b[1]] == '/echo' and b[2] == 2]
                bad = [b for b in bad if b not in known]
                if known and not any('postdata' in k for k in res.known):
                    res.known.append('property=C15 postdata: ' + kf[0]['what'][:260])
            for b in bad[:3]:
                pl = dict(property='C15', obligation='end_to_end', module='harness.c15', fn='ob_end_to_end', post='_', raises=[],
                          args=', '.join(repr(x) for x in b), confirm='confirm_end_to_end')
                p = write_replay('C15', 'end_to_end', pl)
                if len(res.violations) < 12:
                    res.violations.append(dict(name='end_to_end', args=b, how='scenario application with vs without middleware %d differs for (path, method, gzip, query, accept) = %r' % (b[0], b[1:]), replay=p))
    res.notes.append('end-to-end differential sweep: 11 routes x 3 methods x gzip on/off x 7 query strings x 4 Accept headers per middleware (validation leg, plain executions)')
    res.functions_encoded += ['GzipMiddleware.request', 'HTTPCacheMiddleware.request', 'StatsMiddleware.request', 'SimpleProfileMiddleware.request',
                              'SignedCookieMiddleware.request', 'ContextProcessor process_render_context', 'GetParamMiddleware.request',
                              'PostDataMiddleware.request', 'ScriptRootMiddleware.request']
    res.bounds.update(dict(next_outcomes='10 kinds (see desc)', bodies='4 catalogue bodies (empty, 1 byte, 40 compressible bytes, binary)',
                           gzip='quality 0/1, browser None/msie/firefox, compressor output length = len(body)+{-2..1}, pre-existing Content-Encoding'))
    res.outside += ['zlib losslessness itself (C, trusted)', 'profiler with its trigger parameter', 'conditional requests (If-None-Match) through HTTPCacheMiddleware',
                    'stacks of several middlewares (thorough: end-to-end scenario only singly)']
    res.assumptions += ['boltons.strutils.gzip_bytes stub in the gzip obligation: returns bytes of a symbolic length relation; its contract gunzip(c) == data is trusted',
                        'request stub (accept_encodings, user_agent.browser) in the gzip obligation; real werkzeug Request elsewhere']
    return res
