import time
from vlib.e1 import Ob, run_obligations

TECHNIQUE = 'CrossHair symbolic execution (z3) of the real flaw.create_app parse/fallback block, get_flaw_info, _ParsedTB.from_string and the ashes escaping filter on symbolic text'
LEVEL = 'model_checking'
LEVEL_NOTE = ('partial claim: server.py process handling and the ashes template engine run on symbolic text are outside; '
              'the page-level clause is covered by escaping-filter obligations + a static check that the real template only uses auto-escaped references + concrete renders of solver-chosen texts')

A_TEXT = "<>&\"'{}:\\n aT"


def run(ctx):
    T = ctx.thorough
    tmo = 900 if T else 80
    L = 4 if T else 3
    obs = [
        Ob('total', 'ob_total', 'tb_kind: int, text: str, files_kind: int, f1: str, f2: str',
           pre=['0 <= tb_kind <= 4', '0 <= files_kind <= 4', 'len(text) <= %d' % L, 'tb_kind != 2 or all(c == "a" for c in text)', 'len(f1) <= 2', 'len(f2) <= 1'],
           cells=[('tb%d_files%d_len%d' % (k, fk, n), ['tb_kind == %d' % k, 'files_kind == %d' % fk, 'len(text) == %d' % n])
                  for k in range(5) for fk in range(5) for n in (range(L + 1) if k in (0, 2) else [0]) if not (k == 0 and n == 3 and fk >= 3 and not T)],
           timeout=tmo, twin_fn='tw_total', twin_pre=['tb_kind == 1', 'len(text) == 0'], confirm='confirm_total',
           desc='create_app(parse-or-fallback) + get_flaw_info are total for str/None/bytes/int error texts and None/empty/short file lists'),
        Ob('parse_std', 'ob_parse_std', 'form: int, T: str, M: str',
           pre=['0 <= form <= 1', '1 <= len(T) <= 3', 'len(M) <= %d' % L, 'all(c in "ABab_." for c in T)', 'T[0] != "." and T[-1] != "." and ".." not in T',
                'all(c in "<&: aé%{}" for c in M)'],
           cells=[('form%d_T%d_M%d' % (f, t, m), ['form == %d' % f, 'len(T) == %d' % t, 'len(M) == %d' % m])
                  for f in range(2) for t in (1, 2, 3) for m in range(L + 1) if t + m <= (5 if T else 4)],
           timeout=tmo, confirm='confirm_parse',
           desc='traceback ending in "T: M" (standard and SyntaxError caret form): parsed exc_type == T, exc_msg == M'),
        Ob('parse_via_create', 'ob_parse_via_create', 'form: int, T: str, M: str',
           pre=['0 <= form <= 1', '1 <= len(T) <= 2', 'len(M) <= 2', 'all(c in "ABab_" for c in T)', 'all(c in "<&: a" for c in M)'],
           cells=[('form%d' % f, ['form == %d' % f]) for f in range(2)], timeout=tmo, confirm='confirm_parse',
           desc='same through create_app: parsed_error resource carries type and message'),
        Ob('tb_catalogue', 'ob_tb_catalogue', '', packed=[('i', 10), ('depth', 3), ('trailer', 2, 'bool')], timeout=tmo, confirm='confirm_tb_catalogue',
           desc='tracebacks of depth 1-3 ending in "Type: message" for 10 (type, message) pairs incl. plain Exception with the word ignored, module-qualified types, colons in the message: the page heading names type and message'),
        Ob('files_on_page', 'ob_files_on_page', '', packed=[('kind', 4)], timeout=tmo, confirm='confirm_files_on_page',
           desc='every monitored file name is on the page, escaped - including files inside the standard library, site-packages and clastic itself'),
        Ob('escape', 'ob_escape', 's: str', pre=['len(s) <= %d' % L],
           cells=[('len%d' % n, ['len(s) == %d' % n]) for n in range(L + 1)], timeout=tmo if T else 150,
           twin_fn='tw_escape', twin_pre=['len(s) == 2'],
           desc='ashes.escape_html (the filter of {tb_str},{exc_type},{exc_msg},{last_line},{.}): no < > " \' and & only as entity start'),
    ]
    obs.append(Ob('every_path', 'ob_every_path', '', packed=[('path_i', 18), ('method_i', 5), ('tb_i', 3)], cells=[('path%d' % i, [{'path_i': i}]) for i in range(18)], timeout=tmo, confirm='confirm_every_path',
                  desc='the real failsafe application through the WSGI client: 18 paths (root, deep, repeated slashes, NUL, and paths under /clastic_assets/ that are missing, '
                       'dotted, percent-encoded or normalise outside the asset directory) x 5 methods x 3 error texts: always 200, the page carries the escaped error text (real assets excepted)'))
    res = run_obligations('C20', 'harness.c20', obs, ctx.tier)
    # static + concrete legs (counted as validated traces, not as discharged obligations)
    import harness.c20 as H
    bad, refs = H.template_is_autoescaped()
    res.obligations += 1
    if bad:
        from vlib.common import write_replay
        p = write_replay('C20', 'template', dict(property='C20', engine='static', unescaped_references=bad))
        res.violations.append(dict(name='template_autoescape', args=bad, how='flaw template references with explicit filters: %r' % bad, replay=p))
    else:
        res.discharged += 1
        res.nontrivial += 1
    texts = ['<script>alert(1)</script>', '{tb_str}{#x}{/x}', '&amp;<b>"\'', '', 'Traceback (most recent call last):\n  File "a<b>.py", line 3, in <module>\n    x\nValueError: <i>&</i>']
    for r in res.cells:
        if r.get('witness'):
            texts.append(r['witness'])
    import ashes
    for t in texts[:12]:
        page = H.render_page(t, ['/tmp/<f>&.py'])
        okk = ashes.escape_html(t) in page and '<f>' not in page and (t == '' or '<' not in t or t not in page)
        res.traces_validated += 1
        if not okk:
            from vlib.common import write_replay
            p = write_replay('C20', 'page', dict(property='C20', engine='concrete', text=t))
            res.violations.append(dict(name='page_escape', args=t, how='rendered failsafe page does not contain the escaped text / contains raw markup', replay=p))
    res.functions_encoded += ['clastic.flaw.create_app', 'get_flaw_info', '_ParsedTB.from_string/to_dict', '_filter_site_files', 'ashes.escape_html (html.escape)']
    res.bounds.update(dict(error_text='str <= %d chars (unrestricted alphabet), None, bytes, int' % L, files='None, [], 1-3 names <= 2 chars',
                           traceback='type 1-3 chars of a (possibly module-qualified) name, message <= %d chars over "<&: aé%%{}"' % L, escape='s <= %d chars, any characters' % L))
    res.outside += ['ashes template engine executed on symbolic text', 'server.py (subprocess/threads/sockets)', 'texts longer than the bound']
    res.assumptions += ['Application/AshesRenderFactory/StaticApplication replaced by recording stubs inside clastic.flaw for the unit obligations (confirm legs build the real application)',
                        'the template applies the default auto-escape filter to a reference without explicit filter (ashes semantics, checked on concrete renders)']
    return res
