from vlib.e1 import Ob, run_obligations

TECHNIQUE = 'CrossHair symbolic execution (z3 strings) of the real HTTPException serialisers on symbolic field text against an independent per-character escaper; selector-driven checks of the format table, negotiation and status codes'
LEVEL = 'model_checking'
LEVEL_NOTE = ('partial claim: the debug (contextual) pages are rendered by an ashes template engine over a 470-line template, beyond symbolic reach; '
              'Werkzeug Accept parsing is replaced by a contract stub in the negotiation obligation and exercised concretely in a validation leg')


def run(ctx):
    T = ctx.thorough
    import harness.c09 as H0
    NC = len(H0.CODES)
    tmo = 900 if T else 100
    L = 2 if T else 1
    fcells = [('field%d_len%d' % (f, n), [{'field': f}, 'len(s) == %d' % n] + ['all(c in ALPHA for c in s)']) for f in range(4) for n in range(L + 1)]
    obs = [
        Ob('html_escaping', 'ob_html', 's: str', packed=[('field', 4)], pre=['len(s) <= %d' % L], cells=fcells,
           timeout=max(tmo, 200), twin_fn='tw_html', twin_pre=[{'field': 0}, 'len(s) == 1'], confirm='confirm_html',
           desc='to_html() == fixed template with detail / message / error_type (plain and http-link form) escaped per character; one field symbolic'),
        Ob('xml_escaping', 'ob_xml', 's: str', packed=[('field', 4)], pre=['len(s) <= %d' % L], cells=fcells,
           timeout=max(tmo, 200), confirm='confirm_html', desc='to_xml() likewise'),
        Ob('nonstr_detail', 'ob_nonstr_detail', '', packed=[('kind', 7), ('n', 12)], timeout=tmo,
           desc='non-text details (int, None, bytes, list, dict, float, bool) take the repr fallback and are escaped'),
        Ob('formats', 'ob_formats', '', packed=[('code_i', NC), ('mime_i', 9), ('det_i', 9), ('given_code', 2, 'bool')],
           cells=[('code%d' % c, [{'code_i': c}]) for c in range(NC)], timeout=tmo, confirm='confirm_formats',
           desc='every exported error class x 9 mimetypes x 9 details (incl. 4-5 KB texts with markup characters around the 4 KB mark) x default/overridden code: status == code, class code == http.HTTPStatus by name, '
                'adapt(): body == to_<fmt>(), Content-Type agrees, JSON parses with the 4 fields, XML well formed, markup escaped'),
        Ob('negotiation', 'ob_negotiation', '', packed=[('code_i', NC), ('choice', 6), ('which', 2), ('pre_i', 7)],
           cells=[('code%d' % c, [{'code_i': c}]) for c in range(NC)], timeout=tmo, confirm='confirm_negotiation',
           desc='ErrorHandler.render_error / default_render_error return the same error adapted to exactly what best_match chose - also when the error instance was already in another format (served before, or built with mimetype=) (stub: any element or None -> text/plain)'),
    ]
    res = run_obligations('C09', 'harness.c09', obs, ctx.tier)
    import harness.c09 as H
    from vlib.common import write_replay
    bad = 0
    for a in range(14):
        for c in range(0, NC, 3):
            res.traces_validated += 1
            try:
                ok = H._real_accept(a, c)
            except Exception:
                ok = False
            if not ok and bad < 3:
                bad += 1
                p = write_replay('C09', 'accept', dict(property='C09', engine='concrete', accept_index=a, code_index=c))
                res.violations.append(dict(name='real_accept', args=(a, c), how='real Accept header negotiation gives a body/Content-Type mismatch or the wrong format', replay=p))
    res.functions_encoded += ['HTTPException.__init__/adapt/to_dict/to_escaped_dict/to_html/to_xml/to_text/to_json', 'MethodNotAllowed.__init__', 'InternalServerError.__init__/to_dict',
                              'ErrorHandler.render_error', 'application.default_render_error', 'all classes in ERROR_CODE_MAP']
    res.bounds.update(dict(escaping='one field symbolic: <= %d characters over %r' % (L, '<>&"\'{}ah:/'), classes='%d exported classes' % NC, mimetypes='9', details='4 catalogue details'))
    res.outside += ['debug/contextual pages (_contextual_errors.py ashes templates)', 'Werkzeug Accept header parsing (validation leg only)', 'XML 1.0 unrepresentable characters (well-formedness)']
    res.assumptions += ['request.accept_mimetypes.best_match stub: returns an element of its argument or None']
    return res
