from vlib.e1 import Ob, run_obligations

TECHNIQUE = 'CrossHair symbolic execution (z3) of the real Application.add with an unconstrained symbolic index and symbolic fault position, and of symbolic operation histories over real applications against a model routing table'
LEVEL = 'model_checking'


def run(ctx):
    T = ctx.thorough
    tmo = 900 if T else 100
    NOPS2 = 20
    L = 4 if T else 3
    hcells = [('len0', ['len(ops) == 0'])] + [('len1', ['len(ops) == 1'])]
    for n in range(2, L + 1):
        hcells += [('len%d_%d_%d' % (n, a, b), ['len(ops) == %d' % n, 'ops[0] == %d' % a, 'ops[1] == %d' % b]) for a in range(NOPS2) for b in range(NOPS2)
                   if n <= 3 or (a % 2 == 0 and b % 2 == 1)]
    obs = [
        Ob('insert', 'ob_insert', 'nold: int, nnew: int, index: int, k: int, exc: int, use_none: bool',
           pre=['0 <= nold <= 3', '0 <= nnew <= 3', '-7 <= index <= 7', '-1 <= k <= 3', '0 <= exc <= 3', 'k >= 0 or exc == 0'],
           cells=[('old%d_new%d_k%d_%s' % (a, b, k, un), ['nold == %d' % a, 'nnew == %d' % b, 'k == %d' % k, 'use_none == %s' % un] + (['exc == 0', 'index == 0'] if un else [])) for a in range(4) for b in range(4) for k in range(-1, b) for un in (False, True)],
           timeout=tmo, twin_fn='tw_insert', twin_pre=['nold == 2', 'nnew == 2', 'k == -1', 'use_none == False'], confirm='confirm_insert',
           desc='Application.add(entry, index): index is a symbolic int in -7..7 (negative and beyond-the-end included; list operations realise it, so it is bounded); the entry is a route factory '
                'yielding 0-3 routes whose k-th binding may fail with one of 4 exception types: new routes contiguous at the requested position, '
                'other routes keep their order, a failing add leaves the table untouched'),
        Ob('history', 'ob_history', 'ops: List[int]', pre=['len(ops) <= %d' % L, 'all(0 <= o < %d for o in ops)' % NOPS2],
           cells=hcells, timeout=tmo, per_path=60, twin_fn='tw_history', twin_pre=['len(ops) == 2', 'ops[0] == 14', 'ops[1] == 8'], confirm='confirm_history',
           desc='histories of add route / tuple / sub-application / at index 0 / failing adds (conflict at the 2nd route of an embedded app, bad pattern, '
                'reserved resource) / embed app A in B / failing constructor, over two live applications sharing Route and Application objects: after every '
                'step both routing tables equal the model, every model route answers with its own endpoint, shared Route/Application objects are unchanged'),
    ]
    res = run_obligations('C11', 'harness.c11', obs, ctx.tier)
    res.functions_encoded += ['Application.add', 'cast_to_route_factory', 'SubApplication.bind_all', 'Route.bind/BoundRoute.bind', 'BoundRoute.__init__',
                              'Application.__init__', 'Application.dispatch (probe requests)']
    res.bounds.update(dict(insert='existing table 0-3, new routes 0-3, index -7..7, fault position -1..3 x 4 exception types',
                           history='<= %d operations from 10 kinds x 2 target applications' % L))
    res.outside += ['histories longer than the bound', 'thread interleavings (C12)']
    return res
