from vlib.e1 import Ob, run_obligations

TECHNIQUE = 'CrossHair symbolic execution (z3 strings) of meta.get_resource_info / get_mw_infos on symbolic resource names, values and signing keys; solver-driven case splits over host configurations executed on the real MetaApplication (HTML and JSON views)'
LEVEL = 'model_checking'
LEVEL_NOTE = 'partial claim: the ashes-rendered page text is not executed symbolically; it is checked on the real pages for the catalogue values (all escapings of the marker value)'


def run(ctx):
    T = ctx.thorough
    tmo = 900 if T else 100
    obs = [
        Ob('redact', 'ob_redact', 'p: str, s: str, v: str', packed=[('vkind', 6), ('pad', 5)], pre=['len(p) <= 2', 'len(s) <= 2', 'len(v) <= 2', 'all(c in "ab_<" for c in p + s + v)'],
           cells=[('kind%d_pad%d_p%d_s%d' % (k, pd, a, b), [{'vkind': k, 'pad': pd}, 'len(p) == %d' % a, 'len(s) == %d' % b] + (['len(v) == 0'] if pd % 2 else [])) for k in range(6) for pd in range(5) for a in range(3) for b in range(3) if (T or pd == 0 or (k == 0 and a + b <= 1))],
           timeout=tmo, twin_fn='tw_redact', twin_pre=[{'vkind': 0, 'pad': 0}, 'len(p) == 1', 'len(s) == 1'],
           desc='get_resource_info: key = PAD + p + "secret" + s (symbolic p, s; PAD of 0/33/36/39/70 characters puts the word around the 40- and 70-character marks), value V+v+W as str / bytes / list / dict / object-with-that-repr / tuple: marker, and the value in no field'),
        Ob('visible', 'ob_visible', 'key: str, v: str', pre=['len(key) <= 5', 'len(v) <= 2', '"secret" not in key', 'all(c in "secrt<" for c in key)', 'all(c in "a<\'" for c in v)'],
           cells=[('key%d' % n, ['len(key) == %d' % n]) for n in range(6)], timeout=tmo,
           desc='a key that does not contain "secret" keeps its (truncated) repr'),
        Ob('mw_key', 'ob_mw_key', 'k: str, named: bool', pre=['len(k) <= 3'], cells=[('len%d' % n, ['len(k) == %d' % n]) for n in range(4)], timeout=tmo,
           desc='get_mw_infos never shows a SignedCookieMiddleware signing key K+k+Z (symbolic k)'),
        Ob('meta_page', 'ob_meta_page', '', packed=[('mount', 3), ('fail_mode', 8), ('name_i', 6), ('val_i', 12), ('plain_i', 5)],
           cells=[('mount%d_fail%d_name%d' % (m, f, n), [{'mount': m, 'fail_mode': f, 'name_i': n}]) for m in range(3) for f in range(8) for n in range(6) if (T or (n < 2 and (m == 0 or f < 2)) or (n == 3 and m == 0 and f == 0))],
           timeout=tmo, confirm='confirm_meta_page',
           desc='real host applications (7 route kinds incl. callable object, bound/static method, static files, embedded apps; SignedCookie middleware with a known key) '
                'with a secret-named resource (6 name forms) holding the marker value in 10 shapes and a plain resource; meta mounted at /_meta/, at a deep prefix, and embedded '
                'two levels deep; a peripheral failing in get_context / render / get_general_items: HTML and JSON pages answer 200, list the name with the marker, never '
                'contain the marker value or the signing key in any escaping, keep the plain resource visible'),
    ]
    res = run_obligations('C18', 'harness.c18', obs, ctx.tier)
    res.functions_encoded += ['clastic.meta.get_resource_info', '_trunc', 'get_mw_infos', 'Middleware.requires', 'SignedCookieMiddleware.__repr__', 'MetaApplication.get_main/render_main_page_html',
                              'get_route_infos/get_endpoint_info/get_render_info/get_route_arg_info', '_process_items']
    res.bounds.update(dict(names='p, s <= 2 chars over {a b _ <}', values='v <= 2 chars; 6 container shapes', pages='3 mounts x 5 failure modes x 6 names x 10 value shapes x 5 plain names'))
    res.outside += ['the ashes template engine on symbolic text', 'upper-case SECRET (the statement says contains "secret")', 'secrets stored under non-secret names']
    return res
