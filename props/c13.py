from vlib.e1 import Ob, run_obligations

TECHNIQUE = 'solver-driven case splits (CrossHair/z3 realisation of packed selectors) over wrapper configurations, reroute placements and WSGI callable signatures, executed on the real Application / _dispatch_wsgi / RerouteWSGI / check_valid_wsgi'
LEVEL = 'model_checking'
LEVEL_NOTE = ('partial claim: only the clauses implemented in clastic are decided (wrapper order, single call of the response object, reroute, wrapper validity); '
              'start_response/iterable/close()/HEAD behaviour is produced inside Werkzeug and is only monitored with wsgiref.validate in a validation leg')


def run(ctx):
    T = ctx.thorough
    tmo = 900 if T else 100
    import harness.c13 as H
    NL = H.NLISTS
    obs = [
        Ob('wrapper_order', 'ob_wrapper_order', '', packed=[('outer_i', NL), ('with_emb', 3), ('nroutes', 3), ('seh', 2, 'bool'), ('emb_i', NL)],
           cells=[('outer%d_emb%d' % (o, e), [{'outer_i': o, 'with_emb': e}]) for o in range(NL) for e in range(3)], timeout=tmo,
           twin_fn='tw_wrapper_order', twin_pre=[{'outer_i': NL - 1, 'with_emb': 1}], confirm='confirm_wrapper_order',
           desc='application-level middleware lists (<= 2 of 3 wrapping unique types + a wrapping SUBCLASS of one of them + 1 non-wrapping) x 0-2 own routes x 0, 1 or 2 (sibling) embedded applications with their own instances (lists may repeat a unique type): '
                'on one request the wrappers run in list order, outermost first, the embedding application\'s before the embedded one\'s, a unique type once'),
        Ob('files_released', 'ob_files_released', '', packed=[('file_i', 5), ('ims_sel', 4), ('method_i', 2), ('via_route', 2, 'bool')], timeout=tmo, confirm='confirm_files_released',
           desc='StaticApplication / StaticFileRoute responses (200, 304 for If-Modified-Since at/after the mtime, HEAD): after close() of the returned iterable no file opened by clastic.static is still open'),
        Ob('reroute', 'ob_reroute', '', packed=[('how', 4), ('pv', 5), ('si', 4), ('hi', 3), ('bi', 4), ('extra_env', 3)], cells=[('how%d_pv%d' % (h, v), [{'how': h, 'pv': v}]) for h in range(4) for v in range(5)],
           timeout=tmo, confirm='confirm_reroute',
           desc='RerouteWSGI used as endpoint / raised by endpoint, middleware or render, on exact, rewritten (missing or repeated slashes, rewrite mode) and strict paths: the target gets the very environ object with every original entry, and its '
                'status line, header list and body iterable reach the server verbatim'),
        Ob('dispatch_once', 'ob_dispatch_once', '', packed=[('kind', 3)], timeout=tmo,
           desc='_dispatch_wsgi calls the dispatched response object exactly once with the server\'s environ/start_response and returns its iterable itself'),
        Ob('valid_wsgi', 'ob_valid_wsgi', '', packed=[('i', 12), ('as_wrapper', 2, 'bool')], timeout=tmo,
           desc='check_valid_wsgi (directly and through a middleware wsgi_wrapper): accepted iff callable with first two parameters environ, start_response'),
    ]
    res = run_obligations('C13', 'harness.c13', obs, ctx.tier)
    n, bad = H.wsgi_validator_sweep()
    res.traces_validated += n
    from vlib.common import write_replay
    for b in bad[:3]:
        p = write_replay('C13', 'wsgiref', dict(property='C13', engine='concrete', case=list(b)))
        res.violations.append(dict(name='wsgiref_validate', args=b[:2], how=b[2], replay=p))
    res.functions_encoded += ['Application.__init__ (wrapping loop)', '_get_all_middlewares', '_safe_wrap_wsgi', 'check_valid_wsgi', 'Application._dispatch_wsgi/__call__', 'RerouteWSGI', 'Application.dispatch (RerouteWSGI re-raise)']
    res.bounds.update(dict(wrappers='lists of <= 2 middleware instances over 4 types, 0-2 routes, optional embedded application', reroute='4 placements x 4 status lines x 3 header lists x 4 body iterables x 0-2 extra environ entries'))
    res.outside += ['start_response exactly once with a valid status line before body bytes, close() of file iterables, no body for HEAD: inside Werkzeug (wsgiref.validate monitor only)',
                    'wrappers of middlewares that arrive with routes added after construction']
    return res
