from vlib.e3_driver import collect

TECHNIQUE = 'z3 over the generated chain sources of real bound routes (parsed from linecache): every argument of every call is a term over uninterpreted request-value constants and must equal the constant of its unique declared source; validated against real executions'
LEVEL = 'model_checking'
ENGINE = 'E3'


def run(ctx):
    res = collect('C02', ctx, ('c02', 'c01b'), 'wiring')
    from vlib.e1 import Ob, run_obligations
    tmo = 900 if ctx.thorough else 100
    obs = [Ob('two_routes', 'ob_two_routes', '', packed=[('first_kind', 2), ('bind_name_i', 3), ('res_level', 2), ('method_i', 2)], timeout=tmo, confirm='confirm_two_routes',
              desc='two routes match the path; the first is not taken (method not admitted / non-breaking 404) and its URL binding is named like a resource, a defaulted '
                   'parameter or the binding of the second: the second route\'s endpoint gets its own binding, the very resource object and its own default')]
    res.merge(run_obligations('C02', 'harness.c02', obs, ctx.tier))
    res.functions_encoded += ['Application.dispatch (per-route parameter building)', 'BoundRoute.execute', 'sinter.inject']
    return res
