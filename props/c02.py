from vlib.e3_driver import collect

TECHNIQUE = 'z3 over the generated chain sources of real bound routes (parsed from linecache): every argument of every call is a term over uninterpreted request-value constants and must equal the constant of its unique declared source; validated against real executions'
LEVEL = 'model_checking'
ENGINE = 'E3'


def run(ctx):
    return collect('C02', ctx, ('c02', 'c01b'), 'wiring')
