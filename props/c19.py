from vlib.e1 import Ob, run_obligations

TECHNIQUE = 'CrossHair symbolic execution (z3) of the real Reservoir/StatsMiddleware over symbolic op sequences and a symbolic random source'
LEVEL = 'model_checking'


def run(ctx):
    T = ctx.thorough
    maxops = 5 if T else 4
    maxcap = 4 if T else 3
    tmo = 900 if T else 100
    cells = []
    for cap in range(1, maxcap + 1):
        for n in range(0, maxops + 1):
            base = ['cap == %d' % cap, 'len(ops) == %d' % n, 'len(rnd) == %d' % n]
            if n <= 3:
                cells.append(('cap%d_len%d' % (cap, n), base))
            elif n == 4:
                for j in range(8):
                    cells.append(('cap%d_len%d_first%d' % (cap, n, j), base + ['ops[0] %% 8 == %d' % j]))
            else:
                for j in range(8):
                    for k in range(8):
                        cells.append(('cap%d_len%d_first%d_%d' % (cap, n, j, k),
                                      base + ['ops[0] %% 8 == %d' % j, 'ops[1] %% 8 == %d' % k]))
    ccells = [('len%d' % n, ['len(ops) == %d' % n]) for n in range(0, 3)]
    ccells += [('len3_first%d' % j, ['len(ops) == 3', 'ops[0] == %d' % j]) for j in range(14)]
    if T:
        ccells += [('len4_first%d_%d' % (j, k), ['len(ops) == 4', 'ops[0] == %d' % j, 'ops[1] == %d' % k])
                   for j in range(14) for k in range(14)]
    obs = [
        Ob('reservoir', 'ob_reservoir', 'cap: int, ops: List[int], rnd: List[int]',
           pre=['1 <= cap <= %d' % maxcap, 'len(ops) <= %d' % maxops, 'len(rnd) == len(ops)'],
           cells=cells, timeout=tmo, twin_fn='tw_reservoir', twin_pre=['cap == 1', 'len(ops) == 3', 'len(rnd) == 3'],
           confirm='confirm_reservoir',
           desc='Reservoir: total_count == #adds, len(data) <= current capacity, members were added, no exception; '
                'fast_randint is a stub returning ANY value of its contract [a,b] (symbolic list rnd)'),
        Ob('counting', 'ob_counting', 'ops: List[int]',
           pre=['len(ops) <= %d' % (4 if T else 3), 'all(0 <= o < 14 for o in ops)'],
           cells=ccells,
           timeout=max(tmo, 240), twin_fn='tw_counting', twin_pre=['len(ops) == 3'], confirm='confirm_counting',
           desc='StatsMiddleware.request + report/reset endpoints vs model counter; next() outcome by selector'),
        Ob('e2e_counting', 'ob_e2e_counting', '', packed=[('o0', 14), ('o1', 14), ('o2', 14), ('o3', 14)],
           cells=[('o%d_%d' % (a, b), [{'o0': a, 'o1': b}]) for a in range(0, 14, 2) for b in range(14) if (T or (b % 2 == 0 and b >= 8) or a >= 10)], timeout=tmo, confirm='confirm_e2e_counting',
           desc='4 operations through the WSGI client of a real application with the stats sub-application mounted: every report (read / reset endpoint) equals the model, in which '
                'the stats application\'s own routes are counted like any other (the reset request is the first request of the new period)'),
    ]
    res = run_obligations('C19', 'harness.c19', obs, ctx.tier)
    res.functions_encoded += ['clastic.middleware.stats.Reservoir.__init__/add/resize/__iter__/total_count',
                              'RouteStatReservoir.add', 'StatsMiddleware.request/reset', '_get_route_stats',
                              'get_stats_dict', 'get_and_reset_stats_dict']
    res.bounds.update(dict(reservoir_cap='1..%d' % maxcap, reservoir_ops='<= %d of add/resize/iterate' % maxops,
                           random_source='every value of fast_randint contract [start, stop] (symbolic)',
                           counting_ops='<= %d over 2 routes x {200,302,returned 404,raised 403,raised ValueError,report,reset}' % (4 if T else 3)))
    res.outside += ['op sequences longer than the bound', 'routes sharing one pattern (O9)',
                    'boltons.statsutils quantile figures', 'real clock (stubbed, concrete monotone)']
    res.assumptions += ['fast_randint stub: any int in [start, stop] (its documented contract)',
                        'time.time stub: strictly increasing concrete floats',
                        'routes/request are attribute stubs exposing .pattern/.path only']
    return res
