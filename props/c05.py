"""C05 - URL patterns match exactly the paths their mini-language describes (E4 z3 regex inclusion + E1 converters)."""
import itertools, json, os, random, re, time
from concurrent.futures import ProcessPoolExecutor
from vlib.common import Result, NCPU, write_replay, open_findings
from vlib.e1 import Ob, run_obligations

TECHNIQUE = 'z3 regular-expression language inclusion between the regex emitted by the real route compiler (re._parser tree translated to z3 Re) and a spec regex built from the mini-language definition; CrossHair for converters and pattern rejection'
LEVEL = 'model_checking'
ENGINE = 'E4+E1'

LITS = ['a', 'b1']
TYPES = ['str', 'int', 'float']
OPS = ['', ':', '?', '*', '+']
ELEMENTS = [('lit', l) for l in LITS] + [('b', t, o) for t in TYPES for o in OPS]
MODES = ['strict', 'redirect', 'rewrite']
SIGMA = "/ab10.-+ eé"
DIG = '[0-9]'
# python-regex text of the type literals (must = canonical forms every reading of the statement includes;
# may = additionally the blank-prefixed forms Python also converts)
FLOAT_BODY = r'(?:%s+(?:\.%s*)?|\.%s+)(?:[eE][+-]?%s+)?' % (DIG, DIG, DIG, DIG)
T_MUST = {'str': r'[^/]+', 'int': r'[+-]?%s+' % DIG, 'float': r'[+-]?' + FLOAT_BODY}
T_MAY = {'str': r'[^/]+', 'int': r'(?:[+-]| *)%s+' % DIG, 'float': r'(?:[+-]| *)' + FLOAT_BODY}
# what Python's own int()/float() convert, restricted to the alphabet (validated against the real functions each run)
CONV = {'int': r' *[+-]?%s+ *' % DIG, 'float': r' *[+-]?' + FLOAT_BODY + r' *'}


def pattern_text(elements, trailing):
    """printer of the mini-language (independent of clastic's BINDING regex)."""
    parts = []
    n = 0
    for e in elements:
        if e[0] == 'lit':
            parts.append('/' + e[1])
            continue
        _, typ, op = e
        name = 'x%d' % n
        if op in ('', ':'):
            if typ == 'str' and op == '':
                parts.append('/<%s>' % name)
            else:
                parts.append('/<%s:%s>' % (name, typ))          # a type without operator needs the ':' separator
        else:
            t = '' if (typ == 'str' and n % 2 == 0) else typ      # also exercise the default type
            parts.append('/<%s%s%s>' % (name, op, t))
        n += 1
    s = ''.join(parts)
    if trailing:
        s += '/'
    return s or '/'


def spec_regex_text(elements, trailing, mode, tmap):
    """the mini-language definition as a Python regex text (independent printer)."""
    strict = mode == 'strict'
    sep = '/' if strict else '/+'
    out = ''
    for e in elements:
        if e[0] == 'lit':
            out += sep + re.escape(e[1])
        else:
            _, typ, op = e
            u = '(?:%s(?:%s))' % (sep, tmap[typ])
            out += {'': u, ':': u, '?': u + '?', '*': u + '*', '+': u + '+'}[op]
    if strict:
        if trailing or not elements:
            out += '/'
    else:
        out += '/*'
    return '^' + out + '$'


def binding_names(elements):
    n = 0
    names = []
    for e in elements:
        if e[0] == 'b':
            names.append('x%d' % n)
            n += 1
    return names


def real_route(elements, trailing, mode, rebound=False):
    from clastic import Application, Route
    names = binding_names(elements)
    # the endpoint declares its own (non-None) default for every binding: what a route hands over for an absent optional
    # binding is None / [] all the same - the URL converter's business, not the endpoint signature's
    ep = eval('lambda %s: None' % ', '.join('%s=%r' % (n, 'EPDEFAULT:' + n) for n in names))
    patt = pattern_text(elements, trailing)
    if rebound:
        # the route was first bound in an application with ANOTHER slash mode, which is then embedded at the root
        # prefix: the route must follow the mode of the application that serves it
        other = 'strict' if mode != 'strict' else 'redirect'
        inner = Application([Route(patt, ep)], slash_mode=other)
        app = Application([('/', inner)], slash_mode=mode)
    else:
        app = Application([Route(patt, ep)], slash_mode=mode)
    return app.routes[0], patt


def check_assignment(elements, result, path, mode):
    try:
        return _check_assignment(elements, result, path, mode)
    except (ValueError, TypeError, KeyError, IndexError):
        return False


def safe_match(route, path):
    """match_path must never raise ("a segment that fails conversion makes the route not match instead of raising")"""
    try:
        return route.match_path(path), None
    except Exception as e:        # noqa
        return None, e


def _check_assignment(elements, result, path, mode):
    """the values handed to the endpoint are conversions of the path's segments, in order."""
    convs = {'str': str, 'int': int, 'float': float}
    segs = [s for s in path.split('/') if s] if mode != 'strict' else path.split('/')[1:]
    if mode == 'strict' and segs and segs[-1] == '':
        segs = segs[:-1]
    i = 0
    n = 0
    for e in elements:
        if e[0] == 'lit':
            if i >= len(segs) or segs[i] != e[1]:
                return False
            i += 1
            continue
        _, typ, op = e
        v = result['x%d' % n]
        n += 1
        if op in ('*', '+'):
            if not isinstance(v, list):
                return False
            for item in v:
                if i >= len(segs) or convs[typ](segs[i]) != item or type(item) is not convs[typ]:
                    return False
                i += 1
            if op == '+' and not v:
                return False
        elif op == '?' and v is None:
            continue
        else:
            if i >= len(segs) or convs[typ](segs[i]) != v or type(v) is not convs[typ]:
                return False
            i += 1
    return i == len(segs)


def _work(chunk):
    """one worker: a list of (elements, trailing, mode).  Returns result records."""
    import z3
    from vlib import e4_regex as E4
    N = chunk['N']
    out = []
    cache = {}
    for item in chunk['items']:
        elements, trailing, mode = item[:3]
        rebound = len(item) > 3 and item[3]
        rec = dict(pattern=None, mode=mode + ('/rebound' if rebound else ''), queries=0, t=0.0, verdicts=[], witness=None, error=None)
        try:
            route, patt = real_route(elements, trailing, mode, rebound)
            rec['pattern'] = patt
            rx = route.regex.pattern
            key = (rx, tuple(elements), trailing, mode == 'strict', rebound)
            if key in cache:
                rec.update(cache[key])
                rec['cached'] = True
                out.append(rec)
                continue
            impl = E4.translate(rx, SIGMA)
            must = E4.translate(spec_regex_text(elements, trailing, mode, T_MUST), SIGMA)
            may = E4.translate(spec_regex_text(elements, trailing, mode, T_MAY), SIGMA)
            t0 = time.time()
            w1 = E4.find_difference(must, impl, N, SIGMA)       # should match but does not
            w2 = E4.find_difference(impl, may, N, SIGMA)        # matches but should not
            rec['t'] = time.time() - t0
            rec['queries'] = 2
            for tag, w in (('must_subset_impl', w1), ('impl_subset_may', w2)):
                if w is None:
                    rec['verdicts'].append((tag, 'unsat'))
                elif w == 'unknown':
                    rec['verdicts'].append((tag, 'unknown'))
                else:
                    rec['verdicts'].append((tag, 'sat'))
                    # replay on the real route with python re as the concrete oracle
                    got, exc = safe_match(route, w)
                    if exc is not None:
                        rec['witness'] = dict(tag='raises', path=w, match_path=repr(exc), reproduces=True, elements=elements, trailing=trailing)
                        continue
                    if tag == 'must_subset_impl':
                        should = re.match(spec_regex_text(elements, trailing, mode, T_MUST), w) is not None
                        real_violation = should and got is None
                    else:
                        may_ok = re.match(spec_regex_text(elements, trailing, mode, T_MAY), w) is not None
                        real_violation = (not may_ok) and got is not None
                    rec['witness'] = dict(tag=tag, path=w, match_path=repr(got), reproduces=real_violation,
                                          elements=elements, trailing=trailing, rebound=rebound)
                    # translator check: z3 membership must agree with the real regex on the witness
                    if (route.regex.match(w) is not None) != E4.member(w, impl):
                        rec['error'] = 'translator disagreement on %r' % w
            cache[key] = dict(queries=rec['queries'], t=rec['t'], verdicts=rec['verdicts'], witness=rec['witness'], error=rec['error'])
        except Exception as e:    # noqa
            import traceback
            rec['error'] = '%r %s' % (e, traceback.format_exc()[-400:])
        out.append(rec)
    return out


def _validate_translator(sample, res, maxlen):
    """every string of length <= maxlen over SIGMA through the real regex and the z3 translation; also the
    conversion clause: whenever the real route matches, the values are conversions of the segments."""
    from vlib import e4_regex as E4
    strings = ['']
    for n in range(1, maxlen + 1):
        strings += [''.join(t) for t in itertools.product(SIGMA, repeat=n)]
    dis = 0
    checked = 0
    kf_multi = any(f.get('id') == 'C05-multi-repeated-slashes' for f in open_findings('C05'))
    for (elements, trailing, mode) in sample:
        route, patt = real_route(elements, trailing, mode)
        impl = E4.translate(route.regex.pattern, SIGMA)
        pyre = route.regex
        for s in strings:
            if not s.startswith('/'):
                continue
            a = pyre.match(s) is not None
            b = E4.member(s, impl)
            checked += 1
            if a != b:
                dis += 1
                res.errors.append(dict(name='translator', reason='z3 Re and python re disagree on %r for %r' % (s, patt)))
                break
            if a:
                got, exc = safe_match(route, s)
                if exc is not None:
                    p = write_replay('C05', 'raises', dict(property='C05', engine='E4', kind='raises', elements=elements, trailing=trailing, mode=mode, path=s, exc=repr(exc)))
                    res.violations.append(dict(name='match_path_raises', args=(patt, mode, s), how='match_path raised %r instead of returning None' % (exc,), replay=p))
                    break
                if kf_multi and mode != 'strict' and '//' in s:
                    continue        # known finding C05-multi-repeated-slashes (decided by the multi_converter obligation + witness)
                if got is not None and not check_assignment(elements, got, s, mode):
                    p = write_replay('C05', 'conversion', dict(property='C05', engine='E4', kind='conversion', elements=elements,
                                                               trailing=trailing, mode=mode, path=s, got=repr(got)))
                    res.violations.append(dict(name='conversion', args=(patt, mode, s), how='handler values %r are not the conversions of the segments' % (got,), replay=p))
                    break
    return checked, dis


def _conv_queries(res):
    """Q3: every segment the type pattern admits is convertible by Python (else the route wrongly fails to match)."""
    import z3
    from vlib import e4_regex as E4
    from clastic.route import TYPE_PATT_MAP, TYPE_CONV_MAP
    # validate the CONV model against the real int()/float() on all strings <= 5 over the segment alphabet
    seg_sigma = SIGMA.replace('/', '')
    for typ, fn in (('int', int), ('float', float)):
        rx = re.compile('^(?:%s)$' % CONV[typ])
        for n in range(0, 6):
            for t in itertools.product(seg_sigma, repeat=n):
                s = ''.join(t)
                try:
                    fn(s)
                    ok = True
                except ValueError:
                    ok = False
                if ok != (rx.match(s) is not None):
                    res.errors.append(dict(name='conv-model', reason='python %s(%r) convertibility %r disagrees with the model regex' % (typ, s, ok)))
                    return
    for typ in ('int', 'float'):
        impl = E4.translate('^(?:%s)$' % TYPE_PATT_MAP[typ], seg_sigma)
        conv = E4.translate('^(?:%s)$' % CONV[typ], seg_sigma)
        t0 = time.time()
        w = E4.find_difference(impl, conv, 8, seg_sigma)
        res.queries += 1
        res.evaluations += 1
        res.solver_time_s += time.time() - t0
        res.obligations += 1
        if w is None:
            res.discharged += 1
            res.nontrivial += 1
            res.add_sample(dict(query='L(type pattern %s) subset of L(python-convertible), |s|<=8' % typ, verdict='unsat'))
        elif w == 'unknown':
            res.inconclusive.append(dict(name='conv_' + typ, reason='z3 unknown'))
        else:
            # route-level replay: an optional numeric binding followed by a str multi binding; the segment is a
            # perfectly good str segment, so an assignment exists, yet conversion failure makes the route not match
            from clastic import Application, Route
            patt = '/<a?%s>/<b*>' % typ
            for mode in MODES:
                app = Application([Route(patt, lambda a, b: None)], slash_mode=mode)
                got = app.routes[0].match_path('/' + w)
                try:
                    TYPE_CONV_MAP[typ](w)
                    convertible = True
                except ValueError:
                    convertible = False
                if got is None and not convertible:
                    kf = [f for f in open_findings('C05') if f.get('obligation') == 'conv_' + typ]
                    if kf:
                        res.known.append('property=C05 %s' % kf[0]['what'])
                        break
                    p = write_replay('C05', 'conv_' + typ, dict(property='C05', engine='E4', kind='conv', pattern=patt, mode=mode, path='/' + w, typ=typ))
                    res.violations.append(dict(name='conv_' + typ, args=(patt, mode, '/' + w),
                                               how='segment %r is admitted by the %s pattern but not convertible: route %s does not match %r although <b*> can take the segment' % (w, typ, patt, '/' + w), replay=p))
                    break
            else:
                res.errors.append(dict(name='conv_' + typ, reason='witness %r did not replay' % w))


def replay(pl):
    """./check C05 --replay file"""
    k = pl.get('kind')
    from clastic import Application, Route
    if k == 'conv':
        app = Application([Route(pl['pattern'], lambda a, b: None)], slash_mode=pl['mode'])
        got = app.routes[0].match_path(pl['path'])
        print('match_path(%r) on %s -> %r' % (pl['path'], pl['pattern'], got))
        return 1 if got is None else 0
    elements = [tuple(e) for e in pl['elements']]
    route, patt = real_route(elements, pl['trailing'], pl['mode'].split('/')[0], pl.get('rebound', False))
    got = route.match_path(pl['path'])
    print('pattern %s mode %s path %r -> %r' % (patt, pl['mode'], pl['path'], got))
    if k == 'raises':
        got, exc = safe_match(route, pl['path'])
        print('match_path raised %r' % (exc,))
        return 1 if exc is not None else 0
    if k == 'conversion':
        bad = got is not None and not check_assignment(elements, got, pl['path'], pl['mode'])
    elif pl['tag'] == 'must_subset_impl':
        bad = got is None and re.match(spec_regex_text(elements, pl['trailing'], pl['mode'].split('/')[0], T_MUST), pl['path']) is not None
    else:
        bad = got is not None and re.match(spec_regex_text(elements, pl['trailing'], pl['mode'].split('/')[0], T_MAY), pl['path']) is None
    print('REPRODUCED' if bad else 'not reproduced')
    return 1 if bad else 0


def run(ctx):
    T = ctx.thorough
    rnd = random.Random(ctx.seed)
    res = Result('C05')
    res.engines.append('E4 z3 Re inclusion (z3 %s)' % __import__('z3').get_version_string())
    N = 24 if T else 12
    combos = [()]
    for n in (1, 2):
        combos += list(itertools.product(ELEMENTS, repeat=n))
    three = list(itertools.product(ELEMENTS, repeat=3))
    rnd.shuffle(three)
    combos += three if T else three[:250]
    if T:
        four = [tuple(rnd.choice(ELEMENTS) for _ in range(4)) for _ in range(1500)]
        combos += four
    items = [(c, tr, m) for c in combos for tr in (False, True) for m in MODES]
    items += [(c, tr, m, True) for c in combos[:40 if not T else 400] for tr in (False, True) for m in MODES]
    rnd.shuffle(items)
    nchunks = NCPU * 4
    chunks = [dict(N=N, items=items[i::nchunks]) for i in range(nchunks)]
    t0 = time.time()
    with ProcessPoolExecutor(max_workers=NCPU) as ex:
        results = [r for part in ex.map(_work, chunks) for r in part]
    sat_seen = 0
    spurious_q2 = []
    for rec in results:
        res.obligations += 2
        if rec['error']:
            res.errors.append(dict(name='E4:%s:%s' % (rec['pattern'], rec['mode']), reason=rec['error']))
            continue
        res.queries += rec['queries']
        res.evaluations += rec['queries']
        res.solver_time_s += rec['t']
        for tag, v in rec['verdicts']:
            if v == 'unsat':
                res.discharged += 1
                res.nontrivial += 1
            elif v == 'unknown':
                res.inconclusive.append(dict(name='%s %s %s' % (rec['pattern'], rec['mode'], tag), reason='z3 unknown'))
        w = rec['witness']
        if w:
            sat_seen += 1
            if w['reproduces']:
                kf = [f for f in open_findings('C05') if f.get('obligation') == 'regex']
                pl = dict(property='C05', engine='E4', kind='regex', pattern=rec['pattern'], mode=rec['mode'], **w)
                p = write_replay('C05', 'regex', pl)
                if len(res.violations) < 25:
                    res.violations.append(dict(name='regex', args=(rec['pattern'], rec['mode'], w['path']),
                                               how='%s: real match_path -> %s' % (w['tag'], w['match_path']), replay=p))
            elif w['tag'] == 'impl_subset_may':
                spurious_q2.append((rec['pattern'], rec['mode'], w['path']))
            else:
                res.errors.append(dict(name='E4 witness', reason='z3 witness %r for %s/%s did not replay' % (w['path'], rec['pattern'], rec['mode'])))
    for rec in results[:6]:
        res.add_sample(dict(pattern=rec['pattern'], mode=rec['mode'], regex_queries=rec['verdicts'], bound='|path| <= %d over %r' % (N, SIGMA)))
    # sanity mutant (vacuity guard): a deliberately wrong spec must be distinguishable
    from vlib import e4_regex as E4
    route, patt = real_route((('lit', 'a'), ('b', 'int', '*')), True, 'redirect')
    wrong = E4.translate(spec_regex_text((('lit', 'a'), ('b', 'int', '*')), True, 'strict', T_MUST), SIGMA)
    res.twins_total += 1
    if E4.find_difference(E4.translate(route.regex.pattern, SIGMA), wrong, N, SIGMA) not in (None, 'unknown'):
        res.twins_ok += 1
    else:
        res.vacuous.append(dict(name='E4', reason='wrong-mode spec not distinguished'))
    nviol = len(res.violations)
    _conv_queries(res)
    if spurious_q2:
        # a path in L(regex) that the route nevertheless rejects: only possible when a type pattern admits an
        # unconvertible segment, i.e. when the conversion query above found a witness
        if len(res.violations) > nviol or any('conv_' in k for k in res.known):
            for pt, md, pa in spurious_q2[:20]:
                res.inconclusive.append(dict(name='%s %s impl_subset_may' % (pt, md), reason='regex admits %r but conversion rejects it (see conv_* violation)' % pa))
        else:
            res.errors.append(dict(name='E4 witness', reason='%d impl_subset_may witnesses did not replay although every admitted segment is convertible, e.g. %r' % (len(spurious_q2), spurious_q2[0])))
    sample = [(c, tr, m) for c in rnd.sample(combos[:600], 24 if T else 10) for tr in (False, True) for m in ('strict', 'redirect')]
    checked, dis = _validate_translator(sample, res, 5 if T else 4)
    res.traces_validated += checked
    res.notes.append('translator validation: %d (pattern, string) pairs through python re and the z3 translation, %d disagreements' % (checked, dis))
    # E1: converters and pattern rejection
    tmo = 600 if T else 80
    obs = [
        Ob('multi_converter', 'ob_multi', 'typ: int, optional: bool, s1: str, s2: str, k1: int, k2: int, nseg: int',
           pre=['0 <= typ <= 2', '0 <= nseg <= 2', '1 <= k1 <= 3', '1 <= k2 <= 3', 'len(s1) <= 2', 'len(s2) <= 2',
                'all(c in "019" for c in s1)', 'all(c in "019" for c in s2)', 'len(s1) >= 1', 'len(s2) >= 1'],
           cells=[('typ%d_n%d' % (t, n), ['typ == %d' % t, 'nseg == %d' % n]) for t in range(3) for n in range(3)],
           timeout=tmo, twin_fn='tw_multi', twin_pre=['typ == 1', 'nseg == 2'], confirm='confirm_multi',
           desc='build_converter(multi): a group of nseg digit segments joined by 1..3 slashes converts to the list of conversions; absent optional -> []'),
        Ob('single_converter', 'ob_single', 'typ: int, optional: bool, s1: str, k1: int, absent: bool',
           pre=['0 <= typ <= 2', '1 <= k1 <= 3', '1 <= len(s1) <= 2', 'all(c in "019" for c in s1)'],
           cells=[('typ%d' % t, ['typ == %d' % t]) for t in range(3)], timeout=tmo,
           desc='build_converter(single): value with 1..3 leading slashes converts to conv(segment); absent optional -> None'),
        Ob('rejection', 'ob_rejection', 'a: int, b: int, c: int', pre=['0 <= a <= 13', '0 <= b <= 13', '0 <= c <= 13'],
           cells=[('a%d_b%d' % (i, h), ['a == %d' % i, ('b < 5' if h == 0 else ('5 <= b < 10' if h == 1 else 'b >= 10'))]) for i in range(14) for h in range(3)], timeout=tmo, twin_fn='tw_rejection', twin_pre=['a == 3', 'b == 1', 'c == 0'],
           desc='Route(pattern): InvalidPattern exactly for no leading slash, //, duplicate binding, unknown type, unknown operator; nothing else raised'),
    ]
    r1 = run_obligations('C05', 'harness.c05', obs, ctx.tier)
    res.merge(r1)
    res.functions_encoded += ['clastic.route._compile_path_pattern (its emitted regex, via real Application/Route/BoundRoute)', 'BoundRoute.match_path',
                              'build_converter', 'TYPE_PATT_MAP / TYPE_CONV_MAP', 'Route.__init__ (pattern validation)']
    res.bounds.update(dict(patterns='all sequences of <= 2 elements + %d of 3%s over 2 literals + 3 types x 5 operators, with/without trailing slash, 3 modes (%d pattern-mode pairs)' % (len(three) if T else 250, ' + 1500 sampled of 4' if T else '', len(items)),
                           path='every string with |p| <= %d over %r (decided by z3, not enumerated)' % (N, SIGMA),
                           converters='<= 2 segments of 1-2 digits, 1..3 separators'))
    res.outside += ['literal segments with regex metacharacters (O1)', 'characters outside the alphabet (Unicode digits match \\d in the float pattern, O2; "\\n" before $)',
                    'which of several valid assignments the regex engine picks (any valid one satisfies the statement)']
    res.assumptions += ['z3 sequence/regex theory; translation of re._parser trees validated against python re on every witness and on all short strings for a pattern sample',
                        'python int()/float() convertibility over the alphabet modelled by a regex validated against the real functions on all strings <= 5']
    return res
