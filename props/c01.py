from vlib.e2_driver import run_e2

TECHNIQUE = 'z3 over an AST interpretation of the real bind-time dependency arithmetic (SymSet domain) against a declarative availability oracle; models materialised as real callables and replayed through Application(...)'
LEVEL = 'model_checking'
ENGINE = 'E2+E3'


def run(ctx):
    res = run_e2('C01', ctx, ['c01_iff', 'c01_nameerror'], 'twin_c01')
    from vlib.e3_driver import collect
    res.merge(collect('C01', ctx, ('c01b',), 'no TypeError at request time'))
    return res
