from vlib.e1 import Ob, run_obligations

TECHNIQUE = 'CrossHair symbolic execution (z3) of static.find_file on a symbolic path (CPython\'s pure-Python normpath as the model of the C function) plus solver-driven case splits over request segments, fault positions/errno and clock relations executed on the real StaticApplication'
LEVEL = 'model_checking'


def run(ctx):
    T = ctx.thorough
    tmo = 900 if T else 100
    import harness.c14 as H
    NS = H.NSEG
    L = 7 if T else 6
    obs = [
        Ob('confined_symbolic', 'ob_confined_sym', 'path: str', pre=['len(path) <= %d' % L, 'all(c in "/.a" for c in path)'],
           cells=[('len%d' % n, ['len(path) == %d' % n]) for n in range(L)] +
                 [('len%d_%s' % (L, hex(ord(c))), ['len(path) == %d' % L, 'path[0] == chr(%d)' % ord(c)]) for c in '/.a'],
           timeout=tmo if T else 150, twin_fn='tw_confined_sym', twin_pre=['len(path) == 1'],
           desc='find_file(root, path) for a symbolic path over {/ . a}: refused (ValueError) or the normal form of the result is inside the root'),
        Ob('tree0', 'ob_tree0', '', packed=[('via', 3)], timeout=tmo, confirm='confirm_tree0', desc='the empty request under each of the 3 ways in'),
        Ob('tree1', 'ob_tree1', '', packed=[('via', 3), ('s0', NS)], timeout=tmo, confirm='confirm_tree1', desc='1 segment'),
        Ob('tree2', 'ob_tree2', '', packed=[('via', 3), ('s0', NS), ('s1', NS)], cells=[('via%d_s%d' % (v, a), [{'via': v, 's0': a}]) for v in range(3) for a in range(NS)], timeout=tmo,
           confirm='confirm_tree2', desc='2 segments'),
        (Ob('tree3', 'ob_tree3', '', packed=[('via', 3), ('s0', NS), ('s1', NS), ('s2', NS)],
           cells=[('via%d_s%d_%d' % (v, a, b), [{'via': v, 's0': a, 's1': b}]) for v in range(3) for a in range(NS) for b in range(NS)], timeout=tmo, confirm='confirm_tree3', desc='3 segments, full catalogue') if T else
         Ob('tree3', 'ob_tree3core', '', packed=[('via', 3), ('s0', 9), ('s1', 9), ('s2', 9)],
           cells=[('via%d_s%d' % (v, a), [{'via': v, 's0': a}]) for v in range(3) for a in range(9)], timeout=tmo, confirm='confirm_tree3core', desc='3 segments out of the 9 core segments')),
        Ob('tree_doc', 'ob_tree0', '', packed=[('via', 3)], timeout=tmo, confirm='confirm_tree0',
           desc='requests built from 3 segments out of %d (names, ".", "..", "", "...", pieces of the absolute scratch path, secrets beside/above the root) '
                'against a real directory tree with two search directories, through the mounted application (tolerant and strict slash mode) and through the '
                'endpoint directly: 200 only with the exact bytes/length of a regular file inside a root at that path, never a secret, otherwise 403/404 '
                '(non-breaking); files inside a root are served at their path' % NS),
    ] + ([Ob('tree4', 'ob_tree4core', '', packed=[('via', 3), ('s0', 9), ('s1', 9), ('s2', 9), ('s3', 9)],
               cells=[('via%d_s%d_%d' % (v, a, b), [{'via': v, 's0': a, 's1': b}]) for v in range(3) for a in range(9) for b in range(9)], timeout=tmo,
               confirm='confirm_tree4core', desc='4 segments out of the 9 core segments')] if T else []) + [
        Ob('faults', 'ob_faults', '', packed=[('file_i', 4), ('ims', 2, 'bool'), ('vanish', 2, 'bool'), ('fail_at', 12), ('err_i', 5)],
           cells=[('file%d_ims%d' % (f, i), [{'file_i': f, 'ims': i}]) for f in range(4) for i in range(2)],
           timeout=tmo, twin_fn='tw_faults', twin_pre=[{'file_i': 1, 'ims': 0}], confirm='confirm_faults',
           desc='the k-th filesystem call made while serving (isfile, getmtime, open, getsize, read, seek, tell; k = none, 0..10) fails with ENOENT / EACCES / '
                'EIO / EISDIR / ValueError, or the file vanishes between lookup and open: a Response or a non-breaking 403/404, nothing else'),
        Ob('conditional', 'ob_conditional', '', packed=[('mt', 3), ('ims_rel', 5), ('timeout_i', 3)], timeout=tmo,
           desc='If-Modified-Since = mtime + {-2..2} s: at/after -> 304 empty, before -> 200 with the file; caching disabled -> 200'),
        Ob('faithful', 'ob_faithful', '', packed=[('name_i', 10), ('order', 2), ('via', 2)], timeout=tmo, confirm='confirm_faithful',
           desc='10 relative names (non-NFC file and directory names next to their precomposed twins with other content, names present in one / both of two unrelated static applications) '
                'requested from both applications in either order, twice, through the client and through the endpoint: each application answers from its own search directories only, byte for byte'),
        Ob('roundtrip', 'ob_roundtrip', '', packed=[('file_i', 4)], timeout=tmo,
           desc='a conditional request carrying the Last-Modified value the server sent is answered 304 without body'),
        Ob('binary', 'ob_binary', '', packed=[('b1', 9), ('b0', 257)], cells=[('b1_%d' % k, [{'b1': k}]) for k in range(9)], timeout=tmo,
           desc='is_binary_string on 0-2 bytes: every first byte value (or none) x 8 second-byte values (or none)'),
    ]
    res = run_obligations('C14', 'harness.c14', obs, ctx.tier)
    n, bad = H.validate_normpath_model(7 if T else 6)
    res.traces_validated += n
    if bad is not None:
        res.errors.append(dict(name='normpath model', reason='pure-Python normpath model differs from os.path.normpath on %r' % bad))
    res.functions_encoded += ['clastic.static.find_file', 'StaticApplication.get_file_response', 'build_file_response', 'peek_file', 'is_binary_string', 'get_file_mtime',
                              'route.build_converter (multi) via the mounted application', 'posixpath.normpath (pure-Python fallback as the model of posix._path_normpath)']
    res.bounds.update(dict(symbolic_path='<= %d chars over {/ . a}' % L, segments='<= %d of %d catalogue segments x 3 ways in' % (4 if T else 3, NS),
                           faults='12 fault positions x 5 error kinds x vanish x If-Modified-Since x 4 files', clock='mtime and header as whole seconds, relation -2..2'))
    res.outside += ['symlinks, Windows', 'byte-exact streaming through werkzeug FileWrapper beyond get_data()', 'sub-second mtimes', 'paths longer than the bound']
    res.assumptions += ['the scratch filesystem keeps file names byte for byte (no Unicode normalisation; true for the Linux filesystems of this sandbox) - the `faithful` obligation stores non-NFC names',
                        'os.path.normpath (C) modelled by CPython\'s own pure-Python implementation in the symbolic obligation, validated against the C function on every string <= 6 over the alphabet each run',
                        'isfile stub "every candidate exists" in the symbolic confinement obligation']
    return res
