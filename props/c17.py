from vlib.e1 import Ob, run_obligations

TECHNIQUE = 'CrossHair symbolic execution (z3) of the real BasicRender/JSONRender/JSONPRender on symbolic text, values and request selectors'
LEVEL = 'model_checking'


def run(ctx):
    T = ctx.thorough
    L = 5 if T else 4
    tmo = 900 if T else 80
    LA = 2
    LB = 3 if T else 2
    shapes = [(0, 0), (0, 1), (1, 0), (1, 1), (0, 2), (2, 0)]
    if T:
        shapes += [(1, 2), (2, 1), (2, 2), (0, 3)]
    cells = []
    for mid in range(7):
        for (na, nb) in shapes:
            if True:
                for by in (False, True):
                    cells.append(('mid%d_a%d_b%d_%s' % (mid, na, nb, 'bytes' if by else 'str'),
                                  ['mid == %d' % mid, 'len(a) == %d' % na, 'len(b) == %d' % nb, 'as_bytes == %s' % by]))
    obs = [
        Ob('text_label', 'ob_text_label', 'a: str, mid: int, b: str, as_bytes: bool',
           pre=['0 <= mid <= 6', 'len(a) <= %d' % LA, 'len(b) <= %d' % LB, 'all(c in ALPHA for c in a)', 'all(c in ALPHA for c in b)'],
           cells=cells, timeout=max(tmo, 160), twin_fn='tw_text_label', twin_pre=['mid == 3', 'len(a) == 0', 'len(b) == 1', 'as_bytes == False'],
           confirm='confirm_text_label',
           desc='render_basic(text): status 200, body unchanged, label in the three-valued oracle of the statement; '
                'text = a + MID + b with MID in ("", "<html", "<htm", "{", "[", "}", "]") and symbolic a, b'),
        Ob('window', 'ob_window', 'pad: int, tail: int, as_bytes: bool',
           pre=['0 <= pad <= 12', '0 <= tail <= 2'], timeout=tmo, confirm='confirm_window',
           desc='"<html" at offsets 158..170 around the 168-byte sniffing window'),
        Ob('nonsized', 'ob_nonsized', 'kind: int, n: int',
           pre=['0 <= kind <= 6', '-11 <= n <= 11'], cells=[('kind%d' % k, ['kind == %d' % k]) for k in range(7)], timeout=tmo,
           confirm='confirm_nonsized',
           desc='render_basic(int|None|bool|float|object): 200 text/plain str(value), no exception'),
        Ob('sized_choice', 'ob_sized_choice', 'ctx: int, fmt: int, other: str, truthy: bool, choice: int',
           pre=['0 <= ctx <= 7', '0 <= fmt <= 5', 'len(other) <= 3', '-1 <= choice <= 2'],
           cells=[('ctx%d_fmt%d' % (c, f), ['ctx == %d' % c, 'fmt == %d' % f]) for c in range(8) for f in range(6)],
           timeout=tmo, twin_fn='tw_sized_choice', twin_pre=['ctx == 0'],
           desc='sized values: JSON by default, table iff format=html or Accept picks text/html, ValueError only for an unsupported explicit format'),
        Ob('table', 'ob_table', 'ctx: int, doc: int, via_accept: bool, with_route: bool', pre=['0 <= ctx <= 7', '0 <= doc <= 9'],
           cells=[('ctx%d' % c, ['ctx == %d' % c]) for c in range(8)], timeout=tmo, confirm='confirm_table',
           desc='real TabularRender through render_basic on 8 tabular shapes x 10 endpoints (functions with 6 docstring forms: none, empty, one line, multi-line with markup, link; an unhashable callable object, a bound method, a mutable dataclass with __call__, a documented callable object): 200 text/html table, cell text escaped'),
        Ob('json_roundtrip', 'ob_json_roundtrip', 'shape: int, a: int, b: int, flag: bool, streaming: bool, dev: bool',
           pre=['0 <= shape <= 10', '-11 <= a <= 11', '0 <= b <= 1'],
           cells=[('shape%d_%s_%s' % (s, st, dv), ['shape == %d' % s, 'streaming == %s' % st, 'dev == %s' % dv]) for s in range(11) for st in (False, True) for dv in (False, True)], timeout=tmo,
           desc='JSONRender output parses back to the value (symbolic ints/bools in 11 nestings; streaming and dev flags symbolic)'),
        Ob('jsonp', 'ob_jsonp', 'shape: int, a: int, cb: str, flag: bool',
           pre=['0 <= shape <= 10', 'len(cb) <= 3', '-1 <= a <= 10'],
           cells=[('shape%d' % s, ['shape == %d' % s]) for s in range(11)], timeout=tmo,
           desc='JSONP: cb + "(" + json + ");" with javascript mimetype; plain JSON without callback'),
        Ob('json_with_html', 'ob_json_with_html', '', packed=[('doc_i', 7), ('as_bytes', 2, 'bool')], timeout=tmo, confirm='confirm_json_with_html',
           desc='serialized JSON documents whose strings mention <html (inside and beyond the sniffing window) are labelled application/json'),
        Ob('exotic', 'ob_exotic', 'kind: int, nest: int, dev: bool, rk: int',
           pre=['0 <= kind <= 9', '0 <= nest <= 3', '0 <= rk <= 3'], timeout=tmo, twin_fn='tw_exotic',
           cells=[('kind%d_rk%d' % (k, r), ['kind == %d' % k, 'rk == %d' % r]) for k in range(10) for r in range(4)],
           desc='JSONRender / streaming JSONRender / JSONPRender with and without callback: dev mode degrades unknown objects to repr; non-dev raises TypeError only for non-serialisable objects'),
    ]
    res = run_obligations('C17', 'harness.c17', obs, ctx.tier)
    res.functions_encoded += ['clastic.render.simple.BasicRender.render_response/_serialize_to_resp/_guess_json',
                              'JSONRender.__call__', 'JSONPRender.__call__', 'ClasticJSONEncoder.default/__init__']
    res.bounds.update(dict(text='a + MID + b, len(a) <= %d, len(b) <= %d over alphabet %r, MID in 7 markers, str and bytes; window offsets 158..170' % (LA, LB, '{}[]<h a1'),
                           nonsized='symbolic int, None, bools, float n+0.5, plain object',
                           sized='8 container shapes x format in {absent,json,html,"",xml, symbolic <=3 chars} x Accept stub (truthiness, best_match choice)',
                           json='11 nestings of symbolic ints/bools/None; callback <= 3 chars'))
    res.outside += ['boltons.tableutils table HTML (O10) - only the choice of renderer is decided here',
                    'lone surrogates, NaN/Infinity, non-string keys (excluded by the property)',
                    'text longer than the bound / outside the alphabet']
    res.assumptions += ['werkzeug Response replaced by a recording stub inside clastic.render.simple (replay/confirm legs use the real class)',
                        'request.accept_mimetypes stub: truthiness symbolic; best_match returns an element of its argument or None']
    return res
