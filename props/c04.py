from vlib.e2_driver import run_e2

TECHNIQUE = 'z3 over an AST interpretation of the real conflict/reserved-name checks (check_middlewares provided_by map as guarded multimap, BoundRoute src_provides_map, Application reserved test) against a declarative source-count oracle; models replayed through Application(...)'
LEVEL = 'model_checking'
ENGINE = 'E2'


def run(ctx):
    return run_e2('C04', ctx, ['c04_reject', 'c04_type', 'c04_firstparam_type'], 'twin_c04')
