from vlib.e2_driver import run_e2

TECHNIQUE = 'z3 over an AST interpretation of the real conflict/reserved-name checks (check_middlewares provided_by map as guarded multimap, BoundRoute src_provides_map, Application reserved test) against a declarative source-count oracle; models replayed through Application(...)'
LEVEL = 'model_checking'
ENGINE = 'E2'


def run(ctx):
    res = run_e2('C04', ctx, ['c04_reject', 'c04_type', 'c04_firstparam_type'], 'twin_c04')
    from vlib.e1 import Ob, run_obligations
    tmo = 900 if ctx.thorough else 100
    obs = [Ob('factory_misuse', 'ob_factory_misuse', '', packed=[('kind', 4), ('how', 3)], timeout=tmo, confirm='confirm_factory_misuse',
              desc='render functions produced by a render factory (constructor list, add(), re-bound on embedding): one that takes next (required or defaulted) is rejected with NameError at construction'),
           Ob('nonunique_conflict', 'ob_nonunique_conflict', '', packed=[('level_a', 3), ('level_b', 3), ('same_name', 2, 'bool'), ('cls_i', 1)], timeout=tmo, confirm='confirm_nonunique_conflict',
              desc='two instances of one NON-unique middleware type at outer / embedded / route level: offering the same name is a NameError, different names are fine')]
    res.merge(run_obligations('C04', 'harness.c04', obs, ctx.tier))
    return res
