from vlib.e2_driver import run_e2

TECHNIQUE = 'z3 over an AST interpretation of the real conflict/reserved-name checks (check_middlewares provided_by map as guarded multimap, BoundRoute src_provides_map, Application reserved test) against a declarative source-count oracle; models replayed through Application(...); plus CrossHair/z3 case splits over source-position pairs around an embedding, render-factory products, non-unique and per-instance-hook middlewares executed on the real constructors'
LEVEL = 'model_checking'
ENGINE = 'E2'


def run(ctx):
    res = run_e2('C04', ctx, ['c04_reject', 'c04_type', 'c04_firstparam_type'], 'twin_c04')
    from vlib.e1 import Ob, run_obligations
    tmo = 900 if ctx.thorough else 100
    obs = [Ob('factory_misuse', 'ob_factory_misuse', '', packed=[('kind', 4), ('how', 3)], timeout=tmo, confirm='confirm_factory_misuse',
              desc='render functions produced by a render factory (constructor list, add(), re-bound on embedding): one that takes next (required or defaulted) is rejected with NameError at construction'),
           Ob('nonunique_conflict', 'ob_nonunique_conflict', '', packed=[('level_a', 3), ('level_b', 3), ('same_name', 2, 'bool'), ('cls_i', 1)], timeout=tmo, confirm='confirm_nonunique_conflict',
              desc='two instances of one NON-unique middleware type at outer / embedded / route level: offering the same name is a NameError, different names are fine')]
    obs += [Ob('embedded_conflict', 'ob_embedded_conflict', '', packed=[('a', 12), ('b', 12), ('same_name', 2, 'bool'), ('depth2', 2, 'bool')],
               cells=[('a%d' % a, [dict(a=a)]) for a in range(12)], timeout=tmo, confirm='confirm_embedded_conflict',
               desc='every pair of 12 source positions around an embedding (outer resource / outer middleware in 3 phases / URL binding in the embedding prefix / '
                    'inner resource / inner middleware in 3 phases / inner route middleware / inner route resource / inner URL binding), depth 1 and 2: the same name from two '
                    'different sources is a NameError at construction of the OUTER application, resources of different levels are one source'),
            Ob('instance_hooks', 'ob_instance_hooks', '', packed=[('ngood', 3), ('phase', 3), ('bad', 3), ('level', 3)], timeout=tmo, confirm='confirm_instance_hooks',
               desc='middleware hooks assigned per instance (the ContextProcessor idiom): after 0-2 well-formed instances of the same class were accepted by other applications, '
                    'an instance whose request/endpoint/render hook does not take next first is rejected with TypeError at application / route / embedding level')]
    res.merge(run_obligations('C04', 'harness.c04', obs, ctx.tier))
    return res
