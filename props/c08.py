from vlib.e1 import Ob, run_obligations

TECHNIQUE = 'CrossHair symbolic execution (z3) of the real Application.dispatch + error handlers + a real compiled middleware chain, over symbolic selectors (failing position, behaviour, exception/HTTP error class, message, handler)'
LEVEL = 'model_checking'


def run(ctx):
    T = ctx.thorough
    tmo = 1200 if T else 100
    KMAX = 45 if T else 5
    NK = 46 if T else 14
    NM = 4 if T else 3
    ph = [('pos%d_h%d' % (p, h), [{'pos_i': p, 'handler_i': h}]) for p in range(7) for h in range(6)]
    obs = [
        Ob('builtin_exceptions', 'ob_k0', '', packed=[('pos_i', 7), ('handler_i', 6), ('acc', 3), ('msg_i', NM), ('k', 12 if T else 6)],
           cells=ph, timeout=tmo, per_path=60, confirm='confirm_k0',
           desc='one of %d built-in exception types (x %d messages incl. non-ASCII/NUL/3000 chars, x 3 Accept headers) raised at the selected position of a '
                'real 3-phase middleware + endpoint + render chain, under 6 error handlers (default, contextual, re-raising, render_error broken, render_error returning another error, render_error raising another HTTPException); real boltons ExceptionInfo; then a healthy request, a 404 probe, '
                'a 405 probe and a snapshot comparison of the application' % (12 if T else 6, NM)),
        Ob('http_errors', 'ob_k12', '', packed=[('pos_i', 7), ('handler_i', 6), ('kk', 2), ('acc', 3), ('k', NK)],
           cells=ph, timeout=tmo, per_path=60, confirm='confirm_k12',
           desc='an exported HTTPException class (%d codes incl. 4xx and 5xx) raised or returned at the selected position, 3 Accept headers: its own status, the very '
                'object, rendered; broken render_error -> default rendering of the same error' % NK),
        Ob('other_results', 'ob_k345', '', packed=[('pos_i', 7), ('handler_i', 6), ('kk', 5), ('acc', 3), ('k', 8)],
           cells=ph, timeout=tmo, per_path=60, twin_fn='tw_k345', twin_pre=[{'pos_i': 5, 'handler_i': 0}], confirm='confirm_k345',
           desc='non-Response values (str, None, int, dict, list, float), non-breaking errors, early Responses, and raised/returned errors whose detail/message/error_type are arbitrary objects, at the selected position'),
    ]
    obs += [
        Ob('handler_isolation', 'ob_handler_isolation', '', packed=[('dbg_a', 2), ('dbg_b', 2), ('who_reraises', 3), ('order', 2)], timeout=tmo, confirm='confirm_handler_isolation',
           desc='two applications on their default (plain/debug) error handlers, re-raising switched on for one of them after construction, a third one created later: '
                'an uncaught exception escapes only from the application configured to re-raise'),
        Ob('converter_failure', 'ob_converter_failure', '', packed=[('patt_i', 7), ('tail_i', 10), ('dbg', 2), ('fallback', 2)],
           cells=[('patt%d' % i, [{'patt_i': i}]) for i in range(7)], timeout=tmo, confirm='confirm_converter_failure',
           desc='typed URL bindings (int/float/str x single/optional/multi) on paths their regex accepts but the converter rejects (4301+ digit numbers, repeated slashes, huge floats): '
                'a complete 200/404 response through the WSGI client, never an exception, with and without a fallback route'),
    ]
    res = run_obligations('C08', 'harness.c08', obs, ctx.tier)
    res.functions_encoded += ['Application.dispatch', 'ErrorHandler.uncaught_to_response/render_error', 'ContextualErrorHandler.uncaught_to_response',
                              'BoundRoute.execute/execute_error', 'default_render_error', 'sinter.inject', 'generated request/endpoint/render chains of the route',
                              'NullRoute.handle_sentinel_condition', 'HTTPException.__init__/adapt (all exported classes)']
    res.bounds.update(dict(positions='7', behaviours='6 kinds', http_error_classes='first %d of %d exported codes' % (KMAX + 1, 45) if not T else 'all exported codes',
                           builtin_exceptions='12', messages='4 catalogue messages', handlers='default, contextual, reraise_uncaught, broken render_error, render_error returning another error'))
    res.outside += ['BaseException subclasses that are not Exception', 'body iteration through Werkzeug (C13)', 'symbolic exception messages (catalogue only: boltons.tbutils formatting on symbolic text is beyond reach)']
    res.assumptions += ['real werkzeug Request objects (Accept text/plain; text/html in the real_ei cells)',
                        'boltons ExceptionInfo replaced by a cheap recorder except where real_ei=True (kind 0, two exception types, 4 messages, all positions and handlers)',
                        'glom(self, T.exc_info.to_dict(), skip_exc=Exception) replaced by its value (CrossHair breaks glom.ScopeVars.__dict__ assignment)']
    return res
