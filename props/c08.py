from vlib.e1 import Ob, run_obligations

TECHNIQUE = 'CrossHair symbolic execution (z3) of the real Application.dispatch + error handlers + a real compiled middleware chain, over symbolic selectors (failing position, behaviour, exception/HTTP error class, message, handler)'
LEVEL = 'model_checking'


def run(ctx):
    T = ctx.thorough
    tmo = 1200 if T else 90
    KMAX = 45 if T else 5
    cells = [('pos%d_h%d_kind%d' % (p, h, kd), ['pos_i == %d' % p, 'handler_i == %d' % h, 'kind == %d' % kd]) for p in range(7) for h in range(5) for kd in range(6)]
    cells = [(n, c + ['real_ei == False']) for n, c in cells] + [('pos%d_h%d_realEI' % (p, h), ['pos_i == %d' % p, 'handler_i == %d' % h, 'kind == 0', 'real_ei == True']) for p in range(7) for h in range(5) if (T or h != 1)]
    obs = [
        Ob('complete', 'ob_complete', 'pos_i: int, kind: int, k: int, msg_i: int, handler_i: int, real_ei: bool',
           pre=['0 <= pos_i <= 6', '0 <= handler_i <= 4', '0 <= kind <= 5', '0 <= k <= %d' % KMAX, '0 <= msg_i <= 3',
                '(kind == 0 and k == 0) or msg_i == 0', 'kind in (1, 2) or k <= 11', '(not real_ei) or (kind == 0 and k <= 1 and msg_i != 2)'],
           cells=cells, timeout=tmo, per_path=45, twin_fn='tw_complete', twin_pre=['pos_i == 5', 'handler_i == 0', 'real_ei == False', 'kind == 3', 'k == 0'], confirm='confirm_complete',
           desc='a real route with a 3-phase middleware + endpoint + render (and a render-less route); the function at the selected '
                'position raises one of 12 built-in exceptions (4 messages incl. non-ASCII/NUL/3000 chars), raises or returns an exported '
                'HTTPException class (symbolic index), returns a non-Response, raises a non-breaking error or returns an early Response; '
                '5 error handlers; then a second, healthy request and a snapshot comparison of the application'),
    ]
    res = run_obligations('C08', 'harness.c08', obs, ctx.tier)
    res.functions_encoded += ['Application.dispatch', 'ErrorHandler.uncaught_to_response/render_error', 'ContextualErrorHandler.uncaught_to_response',
                              'BoundRoute.execute/execute_error', 'default_render_error', 'sinter.inject', 'generated request/endpoint/render chains of the route',
                              'NullRoute.handle_sentinel_condition', 'HTTPException.__init__/adapt (all exported classes)']
    res.bounds.update(dict(positions='7', behaviours='6 kinds', http_error_classes='first %d of %d exported codes' % (KMAX + 1, 45) if not T else 'all exported codes',
                           builtin_exceptions='12', messages='4 catalogue messages', handlers='default, contextual, reraise_uncaught, broken render_error, render_error returning another error'))
    res.outside += ['BaseException subclasses that are not Exception', 'body iteration through Werkzeug (C13)', 'symbolic exception messages (catalogue only: boltons.tbutils formatting on symbolic text is beyond reach)']
    res.assumptions += ['real werkzeug Request objects (Accept text/plain; text/html in the real_ei cells)',
                        'boltons ExceptionInfo replaced by a cheap recorder except where real_ei=True (kind 0, two exception types, 4 messages, all positions and handlers)',
                        'glom(self, T.exc_info.to_dict(), skip_exc=Exception) replaced by its value (CrossHair breaks glom.ScopeVars.__dict__ assignment)']
    return res
