"""C10 - embedding a sub-application is equivalent to declaring its routes flat."""
import itertools, random, time
from concurrent.futures import ProcessPoolExecutor
from vlib.common import Result, NCPU, write_replay
from vlib.e1 import Ob, run_obligations

TECHNIQUE = 'z3 regular-expression language equivalence (E4) between the regexes of embedded and flat-declared routes; solver-driven case splits over embedding configurations comparing the real nested application with an independently flattened declaration on a request catalogue; chain equivalence of re-bound routes through E3'
LEVEL = 'other'
ENGINE = 'E4+E1+E3'
PREFIXES = ['/p', '/p/', '/', '/p/q', '/x/y/', '']
MODES = ['strict', 'redirect', 'rewrite']


def _regex_work(chunk):
    import z3, re
    from vlib import e4_regex as E4
    from props.c05 import ELEMENTS, pattern_text, binding_names, SIGMA
    from clastic import Application, Route, SubApplication
    out = []
    for (elements, trailing, prefix, mode, depth) in chunk['items']:
        rec = dict(pattern=None, prefix=prefix, mode=mode, depth=depth, r=None, t=0.0, error=None)
        try:
            names = binding_names(elements)
            ep = eval('lambda %s: None' % ', '.join(names))
            patt = pattern_text(elements, trailing)
            rec['pattern'] = patt
            inner = Application([Route(patt, ep)])
            if depth == 2:
                app = Application([(prefix or '/', inner)], slash_mode=mode)
                total = prefix.rstrip('/')
            else:
                mid = Application([(prefix or '/', inner)])
                app = Application([('/o', mid)], slash_mode=mode)
                total = '/o' + prefix.rstrip('/')
            flat = Application([Route(total + patt, ep)], slash_mode=mode)
            ra, rb = app.routes[0].regex.pattern, flat.routes[0].regex.pattern
            t0 = time.time()
            if ra == rb:
                rec['r'] = 'identical'
            else:
                A_, B_ = E4.translate(ra, SIGMA), E4.translate(rb, SIGMA)
                w1 = E4.find_difference(A_, B_, chunk['N'], SIGMA)
                w2 = E4.find_difference(B_, A_, chunk['N'], SIGMA)
                if w1 is None and w2 is None:
                    rec['r'] = 'unsat'
                elif 'unknown' in (w1, w2):
                    rec['r'] = 'unknown'
                else:
                    w = w1 if w1 is not None else w2
                    rec['r'] = 'sat'
                    rec['witness'] = w
                    rec['real'] = (repr(app.routes[0].match_path(w)), repr(flat.routes[0].match_path(w)))
            rec['t'] = time.time() - t0
        except Exception as e:     # noqa
            rec['error'] = repr(e)
        out.append(rec)
    return out


def replay(pl):
    print(pl)
    return 1


def run(ctx):
    T = ctx.thorough
    rnd = random.Random(ctx.seed)
    res = Result('C10')
    from props.c05 import ELEMENTS
    combos = [()] + [(e,) for e in ELEMENTS] + list(itertools.product(ELEMENTS, repeat=2))
    if T:
        three = list(itertools.product(ELEMENTS, repeat=3))
        rnd.shuffle(three)
        combos += three[:300]
    items = [(c, tr, p, m, d) for c in combos for tr in (False, True) for p in PREFIXES for m in MODES for d in ((2, 3) if T else (2,))]
    if not T:
        rnd.shuffle(items)
        items = items[:1500]
    nch = NCPU * 4
    chunks = [dict(N=20 if T else 12, items=items[i::nch]) for i in range(nch)]
    with ProcessPoolExecutor(max_workers=NCPU) as ex:
        recs = [r for part in ex.map(_regex_work, chunks) for r in part]
    for r in recs:
        res.obligations += 1
        if r['error']:
            res.errors.append(dict(name='E4 %s %s' % (r['pattern'], r['prefix']), reason=r['error']))
            continue
        res.queries += 0 if r['r'] == 'identical' else 2
        res.evaluations += 1
        res.solver_time_s += r['t']
        if r['r'] in ('unsat', 'identical'):
            res.discharged += 1
            if r['r'] == 'unsat':
                res.nontrivial += 1
        elif r['r'] == 'unknown':
            res.inconclusive.append(dict(name='regex %s under %s' % (r['pattern'], r['prefix']), reason='z3 unknown'))
        else:
            a, b = r['real']
            if (a == 'None') != (b == 'None'):
                p = write_replay('C10', 'regex', dict(property='C10', engine='E4', **{k: v for k, v in r.items() if k != 'error'}))
                if len(res.violations) < 10:
                    res.violations.append(dict(name='regex_equiv', args=(r['prefix'], r['pattern'], r['mode'], r['witness']),
                                               how='embedded route matches %s, flat route matches %s' % (a, b), replay=p))
            else:
                res.errors.append(dict(name='E4 witness', reason='witness %r does not distinguish the real routes' % (r['witness'],)))
    ident = sum(1 for r in recs if r['r'] == 'identical')
    res.notes.append('%d embedded/flat regex pairs: %d textually identical, the rest decided by z3 language equivalence' % (len(recs), ident))
    res.add_sample(dict(kind='regex pair', example=[r for r in recs if r['r'] == 'unsat'][:1] or recs[:1]))
    tmo = 900 if T else 100
    obs = [
        Ob('slash_prefix', 'ob_slash2', '', packed=[('prefix_i', 5), ('m0', 3), ('m1', 3), ('inherit', 2, 'bool'), ('rebind', 2, 'bool'), ('via_add', 2, 'bool')],
           cells=[('prefix%d' % p, [{'prefix_i': p}]) for p in range(5)], timeout=tmo, confirm='confirm_slash2',
           desc='depth 2: 5 prefixes x outer/inner slash mode x inherit_slashes x rebind_render (both levels have middlewares, resources, render factories, error handlers): '
                'same route patterns in the same order and identical (status, body, Location, error-handler tag, Allow) on the request catalogue as the flat declaration'),
        Ob('middlewares_resources', 'ob_mws2', '', packed=[('a', 7), ('b', 7), ('prefix_i', 5), ('res0', 3), ('res1', 3)],
           cells=[('a%d_b%d' % (a, b), [{'a': a, 'b': b}]) for a in range(7) for b in range(7)], timeout=tmo, confirm='confirm_mws2',
           desc='depth 2: outer x inner middleware lists (2 unique types shared or not, 1 non-unique) x which level defines resources r / s x prefix'),
        Ob('depth3', 'ob_depth3', '', packed=[('a', 4), ('b', 4), ('c', 4), ('p1', 3), ('p2', 3), ('inh', 4), ('reb', 4), ('res_sel', 6)] if T else
           [('a', 3), ('b', 3), ('c', 3), ('p1', 2), ('p2', 2), ('inh', 4), ('reb', 4), ('res_sel', 3)],
           cells=([('a%d_b%d_c%d_p%d_%d' % (a, b, c, p1, p2), [{'a': a, 'b': b, 'c': c, 'p1': p1, 'p2': p2}]) for a in range(4) for b in range(4) for c in range(4) for p1 in range(3) for p2 in range(3)] if T else
                  [('a%d_b%d_c%d' % (a, b, c), [{'a': a, 'b': b, 'c': c}]) for a in range(3) for b in range(3) for c in range(3)]),
           timeout=tmo, confirm='confirm_depth3',
           desc='depth 3: middleware lists of the three levels x prefixes x inherit/rebind flags of both embedding steps x 6 resource placements (a name defined only by two inner levels is excluded)'),
    ]
    obs.append(Ob('reembedded', 'ob_reembedded', '', packed=[('prefix_i', 5), ('b', 7), ('rebind', 2, 'bool'), ('nofactory', 2, 'bool'), ('res1', 3)],
                  cells=[('prefix%d' % p, [{'prefix_i': p}]) for p in range(5)], timeout=tmo, confirm='confirm_reembedded',
                  desc='depth 2 and 3 where the innermost application had ALREADY been embedded in an unrelated application (own factory, resources, middlewares, error handler), and trees in which no level '
                       'has a render factory: still identical to the flat declaration'))
    res.merge(run_obligations('C10', 'harness.c10', obs, ctx.tier))
    res.engines.append('E4 z3 Re equivalence of embedded vs flat route regexes')
    res.functions_encoded += ['SubApplication.__init__/bind_all', 'BoundRoute.__init__ (prefix, slash mode, resources, merge, render/render_error re-binding)', 'Application.add', '_compile_path_pattern (regex of the prefixed pattern)',
                              'Application.dispatch on the request catalogue']
    res.bounds.update(dict(regex='%d (pattern, prefix, mode, depth) pairs, |path| <= %d' % (len(recs), 20 if T else 12), trees='depth 2 and 3, selector spaces as listed per obligation', requests='15 paths x 2 methods per tree'))
    res.outside += ['a name defined only by two inner levels (excluded by the property)', 'levels without a render factory (which outer factory takes over is undocumented)',
                    'requests outside the catalogue (covered per attribute: regex equivalence by E4, chain equivalence of re-bound routes by E3 cells)']
    res.assumptions += ['the flattened declaration is written from the statement (independent of clastic\'s binding code) and compared by real requests']
    return res
