from vlib.e1 import Ob, run_obligations

TECHNIQUE = 'CrossHair symbolic execution (z3) of the real JSONCookie.unserialize + SecureCookie.unserialize + SignedCookieMiddleware.request on symbolic cookie text with contract stubs for MAC/base64/JSON/clock'
LEVEL = 'model_checking'
LEVEL_NOTE = ('trusted: HMAC-SHA1 strength (MAC modelled as an ideal oracle: "signature valid" is a symbolic bool), base64/json C codecs '
              '(contract stubs; the real codecs are used in the round-trip obligations where values are realised), Werkzeug cookie header parsing')


def run(ctx):
    T = ctx.thorough
    L = 5 if T else 4
    tmo = 600 if T else 100
    ucells = []
    for n in range(0, L + 1):
        for mac in (False, True):
            for b in range(3):
                if n >= 4:
                    for first in '?&="aé':
                        ucells.append(('len%d_mac%s_b64%d_first%s' % (n, mac, b, hex(ord(first))),
                                       ['len(s) == %d' % n, 'mac_ok == %s' % mac, 'b64_mode == %d' % b, 's[0] == chr(%d)' % ord(first)]))
                else:
                    ucells.append(('len%d_mac%s_b64%d' % (n, mac, b), ['len(s) == %d' % n, 'mac_ok == %s' % mac, 'b64_mode == %d' % b]))
    obs = [
        Ob('unserialize', 'ob_unserialize', 's: str, mac_ok: bool, b64_mode: int, unq_mode: int',
           pre=['len(s) <= %d' % L, '0 <= b64_mode <= 2', '0 <= unq_mode <= 1', 'all(c in ALPHA for c in s)'],
           cells=ucells, timeout=tmo, twin_fn='tw_unserialize', twin_pre=['len(s) == 4', 'mac_ok == True', 'b64_mode == 0'],
           confirm='confirm_unserialize',
           desc='every cookie text over {? & = " a é}: never raises; not validly signed / malformed -> empty; valid -> exactly its items'),
        Ob('expiry', 'ob_expiry', 'now: int, exp: int, has_exp: bool', timeout=tmo, twin_fn='tw_expiry',
           desc='validly signed data is presented iff now <= _expires; _expires itself is removed'),
        Ob('expiry_seq', 'ob_expiry_seq', '', packed=[('exp', 6), ('t1', 4), ('t2', 4), ('t3', 4)], cells=[('exp%d' % e, [{'exp': e}]) for e in range(6)], timeout=tmo, confirm='confirm_expiry_seq',
           desc='the same validly signed cookie string presented three times while the clock advances (real HMAC/base64/json): every presentation is decided by the clock at that moment'),
        Ob('history', 'ob_history', '', packed=[('expiry_kind', 3), ('o0', 10), ('o1', 10), ('o2', 10)],
           cells=[('exp%d_o%d' % (e, a), [{'expiry_kind': e, 'o0': a}]) for e in range(3) for a in range(10)], timeout=tmo, confirm='confirm_history',
           desc='two clients with their own cookie jars, 3 operations from {set key, read, delete key, log out (set_expires(NOW)), clear}, real application and clock: after every step each client reads back exactly what it stored'),
        Ob('foreign_key', 'ob_foreign_key', '', packed=[('sk_i', 5), ('fk_i', 6)], timeout=tmo, confirm='confirm_foreign_key',
           desc='cookies signed with another key (incl. the "?"-collapsed and truncated forms of non-ASCII / text server keys) are presented as empty'),
        Ob('middleware', 'ob_middleware', 'present: bool, s: str, mac_ok: bool, b64_mode: int, expiry_kind: int, now: int, sets: bool',
           pre=['len(s) <= %d' % (3 if T else 2), '0 <= b64_mode <= 2', '0 <= expiry_kind <= 2', 'all(c in ALPHA for c in s)', '0 <= now <= 10'],
           cells=[('len%d_exp%d_sets%s' % (n, e, st), ['len(s) == %d' % n, 'expiry_kind == %d' % e, 'sets == %s' % st])
                  for n in range(4 if T else 3) for e in range(3) for st in (False, True)],
           timeout=tmo, desc='SignedCookieMiddleware.request returns next()\'s response object for every cookie value, stub outcome and expiry setting'),
        Ob('roundtrip', 'ob_roundtrip', 'shape: int, a: int, b: int, flag: bool',
           pre=['0 <= shape <= 10', '-11 <= a <= 11', '0 <= b <= 1'],
           cells=[('shape%d' % s, ['shape == %d' % s]) for s in range(11)], timeout=tmo,
           desc='unquote(quote(v)) == v through the real base64/json codecs (values realised: ints in -11..11)'),
        Ob('text_roundtrip', 'ob_text_roundtrip', '', packed=[('pad', 3), ('c1', 10), ('c2', 10), ('shape', 4)], cells=[('pad%d_c%d' % (i, c), [{'pad': i, 'c1': c}]) for i in range(3) for c in range(10)], timeout=tmo, confirm='confirm_text_roundtrip',
           desc='text values (as value, inside a dict/list, as a key) built from ? > ~ DEL quote backslash space and non-ASCII characters at every base64 alignment (all 64 sextets occur): '
                'unquote(quote(v)) == v and real serialize -> unserialize gives back exactly the stored data'),
        Ob('serialize_roundtrip', 'ob_serialize_roundtrip', 'shape: int, a: int, flag: bool',
           pre=['0 <= shape <= 10', '-2 <= a <= 2'],
           cells=[('shape%d' % s, ['shape == %d' % s]) for s in range(11)], timeout=tmo,
           desc='real serialize -> unserialize (real HMAC): stored data comes back; other key or flipped byte -> empty'),
    ]
    res = run_obligations('C16', 'harness.c16', obs, ctx.tier)
    res.functions_encoded += ['clastic.middleware.cookie.JSONCookie.unserialize/quote/unquote/set_expires',
                              'SignedCookieMiddleware.request', 'secure_cookie.cookie.SecureCookie.unserialize/serialize/load_cookie/save_cookie']
    res.bounds.update(dict(cookie_text='<= %d chars over {? & = " a é}' % L, stub_outcomes='mac_ok x b64 {ok, binascii.Error, TypeError} x unquote {ok, UnquoteError}',
                           clock='now, _expires: unbounded symbolic ints', roundtrip='11 JSON shapes, ints -11..11'))
    res.outside += ['HMAC/SHA-1 strength', 'Werkzeug cookie header parsing (request.cookies is the symbolic input)',
                    'multi-client histories (each request is a function of its cookie value and the clock)', 'cookie text longer than the bound']
    res.assumptions += ['hmac stub: fixed digest; safe_str_cmp stub: symbolic bool (ideal MAC)', 'base64.b64decode stub: fixed bytes | binascii.Error | TypeError',
                        'JSONCookie.unquote stub in unserialize obligations: fixed value | UnquoteError', 'url_unquote_plus stub: identity', 'time stub: symbolic int']
    return res
