from vlib.e1 import Ob, run_obligations

TECHNIQUE = 'CrossHair symbolic execution (z3) of the real Application.dispatch/DispatchState/NullRoute over symbolic stub routing tables and an arbitrary earlier dispatch state, against a declarative fold'
LEVEL = 'model_checking'


def run(ctx):
    T = ctx.thorough
    tmo = 900 if T else 100
    NR = 29
    cells = []
    for mi in range(4):
        for pn in (False, True):
            for pa in (False, True):
                base = ['mi == %d' % mi, 'pre_nb == %s' % pn, 'pre_allowed == %s' % pa]
                for n in (0, 1):
                    cells.append(('m%d_nb%d_al%d_len%d' % (mi, pn, pa, n), ['len(rows) == %d' % n] + base))
                if T or not (pn or pa):
                    for first in range(NR):
                        cells.append(('m%d_nb%d_al%d_len2_first%d' % (mi, pn, pa, first),
                                      ['len(rows) == 2', 'rows[0] == %d' % first] + base))
        if T and mi == 0:          # 3-route tables for GET (841 cells); the other methods stay at 2 routes + all pre-states
            for first in range(NR):
                for second in range(NR):
                    cells.append(('m%d_len3_first%d_%d' % (mi, first, second),
                                  ['len(rows) == 3', 'rows[0] == %d' % first, 'rows[1] == %d' % second, 'mi == %d' % mi,
                                   'pre_nb == False', 'pre_allowed == False']))
    obs = [
        Ob('dispatch', 'ob_dispatch', 'rows: List[int], mi: int, pre_nb: bool, pre_allowed: bool',
           pre=['len(rows) <= 3', '0 <= mi <= 3', 'all(0 <= r < %d for r in rows)' % NR],
           cells=cells, timeout=tmo, twin_fn='tw_dispatch', twin_pre=['len(rows) == 2', 'mi == 3'], confirm='confirm_dispatch',
           desc='dispatch over a table of stub routes (path-match bit, method set, 7 behaviours) + real null route, started from an arbitrary '
                'valid earlier state (0/1 non-breaking error, 0/1 allowed-method set), equals the fold of the statement; 405 carries Allow == union'),
        Ob('match_method', 'ob_match_method', 'm: str, msel: int', pre=['len(m) <= 3', '0 <= msel <= 3', 'all(c in "GgEeTtPx" for c in m)'],
           cells=[('msel%d_len%d' % (s, n), ['msel == %d' % s, 'len(m) == %d' % n]) for s in range(4) for n in range(3)] +
                 ([('msel%d_len3_%s' % (s, hex(ord(c))), ['msel == %d' % s, 'len(m) == 3', 'm[0] == chr(%d)' % ord(c)]) for s in range(4) for c in 'GgEeTtPx'] if T else []),
           timeout=tmo, desc='BoundRoute.match_method on symbolic method text over {G g E e T t P x}: case-insensitive membership (set lookup realises the text, so the alphabet bounds the enumeration)'),
        Ob('add_history', 'ob_add_history', '', packed=[('warm', 2, 'bool'), ('i0', 5), ('i1', 5), ('patt0', 3), ('patt1', 3)], cells=[('warm%d_i%d' % (w, i), [{'warm': w, 'i0': i}]) for w in range(2) for i in range(5)], timeout=tmo, confirm='confirm_add_history',
           desc='a table built by the constructor and two add(entry, index) calls (index None/0/1/2/beyond) interleaved with requests: every request is answered by the first matching route of the CURRENT list'),
        Ob('canned_errors', 'ob_canned', '', packed=[('r0', 5), ('r1', 5), ('r2', 5), ('r3', 5)], cells=[('r%d' % i, [{'r0': i}]) for i in range(5)], timeout=tmo, confirm='confirm_canned',
           desc='real applications of 4 routes over {no match, returns canned error A, raises canned error B, fresh non-breaking error, answers}: error OBJECTS that live across '
                'requests and are produced by several routes - the response is the most recent non-breaking error, twice in a row'),
        Ob('method_norm', 'ob_method_norm', 'a: int, b: int, dup: bool', pre=['0 <= a <= 10', '0 <= b <= 10'], timeout=tmo,
           desc='Route(methods=[..]) normalisation: upper-cased, GET implies HEAD, unknown -> InvalidMethod'),
    ]
    res = run_obligations('C06', 'harness.c06', obs, ctx.tier)
    res.functions_encoded += ['clastic.application.Application.dispatch', 'DispatchState.*', 'NullRoute.handle_sentinel_condition (real bound null route)',
                              'BoundRoute.match_method', 'Route.__init__ (method normalisation)', 'errors.MethodNotAllowed.__init__']
    res.bounds.update(dict(table='<= 2 stub routes (quick: 2-route tables from the empty pre-state only; thorough: 2 with all pre-states, 3 from the empty pre-state for GET) + null route', row='no-match | 4 method sets x 7 behaviours',
                           request_methods="GET, HEAD, pOsT, PUT", pre_state='0/1 earlier non-breaking error x 0/1 earlier allowed-method set',
                           method_text='<= 2 (thorough 3) chars over {G g E e T t P x}'))
    res.outside += ['real pattern matching inside dispatch (C05; here a symbolic bit)', 'error body rendering (C09)', 'tables longer than the bound '
                    '(the arbitrary pre-state makes the loop-body claim independent of history length, as an inductive step)',
                    'insertion order of add() (C11)']
    res.assumptions += ['stub routes expose match_path/match_method(real)/methods/is_branch/slash_mode/execute/execute_error/render_error',
                        'DispatchState factory patched to inject the symbolic pre-state',
                        'error_handler.exc_info_type replaced by a cheap recorder (traceback formatting is C08/C09 territory)']
    return res
