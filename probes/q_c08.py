from p_disp import *
from clastic.errors import ErrorHandler, ContextualErrorHandler, InternalServerError, BadRequest, ERROR_CODE_MAP
EXCS = [ValueError, KeyError, RuntimeError, ZeroDivisionError]
CODES = sorted(k for k in ERROR_CODE_MAP if k)
class R2(StubRoute):
    def __init__(self, kind, sel, raise_it, brk):
        StubRoute.__init__(self, 0, True, True, 0); self.kind, self.sel, self.raise_it, self.brk = kind, sel, raise_it, brk
    def execute(self, **kw):
        if self.kind == 0: return Response('ok')
        if self.kind == 1: return [None, 'str', 5, {}][self.sel % 4]
        if self.kind == 2: raise EXCS[self.sel % 4]('boom')
        e = ERROR_CODE_MAP[CODES[self.sel % len(CODES)]](is_breaking=self.brk)
        if self.raise_it: raise e
        return e
APP2 = Application([]); APP3 = Application([], debug=True)
def c08(kind: int, sel: int, raise_it: bool, brk: bool, debug: bool) -> bool:
    """
    pre: 0 <= kind <= 3 and 0 <= sel < 40
    post: _
    """
    app = APP3 if debug else APP2
    app.routes = [R2(kind, sel, raise_it, brk)]
    try:
        ret = app.dispatch(REQ)
    finally:
        app.routes = []
    if not isinstance(ret, Response.__mro__[1]) and not hasattr(ret, 'status_code'): return False
    if kind == 0: return ret.status_code == 200
    if kind in (1, 2): return ret.status_code == 500
    return ret.status_code == CODES[sel % len(CODES)]
