from p_disp import *

def dispatch2(table: List[Tuple[bool, bool, int]]) -> bool:
    """
    pre: len(table) == 2
    pre: all(0 <= b <= 5 for _, _, b in table)
    post: _
    """
    return dispatch_ok(table)
