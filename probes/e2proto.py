"""Prototype of E2: interpret the AST of the real chain builders over symbolic name sets."""
import ast, inspect, itertools, time, sys
import z3
import clastic.sinter as sinter
import clastic.middleware.core as core

ALPHA = ['a', 'b', 'c']
BUILTINS = ['request', '_application', '_route', '_dispatch_state', 'context', 'next']
U = ALPHA + BUILTINS

class SymSet:
    def __init__(self, bits=None):
        self.b = {n: z3.BoolVal(False) for n in U}
        if bits: self.b.update(bits)
    @staticmethod
    def of(x):
        if isinstance(x, SymSet): return x
        s = SymSet()
        for e in x:
            if isinstance(e, SymSet):  # chain.from_iterable etc.
                s = s | e
            else:
                s.b[e] = z3.BoolVal(True)
        return s
    def __or__(self, o): o = SymSet.of(o); return SymSet({n: z3.Or(self.b[n], o.b[n]) for n in U})
    def __and__(self, o): o = SymSet.of(o); return SymSet({n: z3.And(self.b[n], o.b[n]) for n in U})
    def __sub__(self, o): o = SymSet.of(o); return SymSet({n: z3.And(self.b[n], z3.Not(o.b[n])) for n in U})
    def nonempty(self): return z3.Or(*self.b.values())
    def contains(self, n): return self.b[n]
    def copy(self): return SymSet(dict(self.b))

class FB:  # abstract signature record
    def __init__(self, req, opt): self.req, self.opt = req, opt
class Opaque:
    def __init__(self, tag): self.tag = tag

class Unsupported(Exception): pass

class Interp:
    def __init__(self, sigs):
        self.sigs = sigs          # id(func token) -> FB
        self.raises = []          # (cond, exc_name, where)
        self.pc = z3.BoolVal(True)
    # --- intrinsics
    def get_fb(self, f): return self.sigs[id(f)]
    def call(self, fn, args, kwargs):
        name = getattr(fn, '__name__', None)
        if fn is sinter.get_fb: return ('fb', self.get_fb(args[0]))
        if fn is sinter.get_arg_names or fn is core.get_arg_names:
            fb = self.get_fb(args[0]); return fb.req | fb.opt
        if fn in (sinter.make_chain, sinter.chain_argspec, core.make_middleware_chain):
            return self.run(fn, args, kwargs)
        if fn in (sinter.compile_chain, core._create_request_inner, sinter.compile_code):
            tok = Opaque(name); self.sigs[id(tok)] = FB(SymSet.of(args[2]), SymSet()) if fn is core._create_request_inner else None; return tok
        if fn is set:
            return SymSet.of(args[0]) if args else SymSet()
        if fn in (list, tuple):
            return args[0] if isinstance(args[0], SymSet) else fn(args[0]) if args else fn()
        if fn is zip: return list(zip(*args))
        if getattr(fn, '__name__', '') == 'from_iterable': return SymSet.of(args[0])
        raise Unsupported('call %r' % (fn,))
    def run(self, fn, args, kwargs):
        src = inspect.getsource(fn); tree = ast.parse(src).body[0]
        params = [a.arg for a in tree.args.args]
        env = dict(zip(params, args)); env.update(kwargs)
        env['__glob__'] = fn.__globals__
        try:
            for st in tree.body: self.stmt(st, env)
        except _Return as r: return r.v
        return None
    def stmt(self, st, env):
        if isinstance(st, ast.Expr): self.ev(st.value, env); return
        if isinstance(st, ast.Assign):
            v = self.ev(st.value, env)
            for t in st.targets: self.assign(t, v, env)
            return
        if isinstance(st, ast.AugAssign):
            cur = self.ev(st.target, env); v = self.ev(st.value, env)
            if isinstance(st.op, ast.BitOr): self.assign(st.target, cur | v, env); return
            raise Unsupported(ast.dump(st.op))
        if isinstance(st, ast.Return): raise _Return(self.ev(st.value, env))
        if isinstance(st, ast.For):
            it = self.ev(st.iter, env)
            if isinstance(it, SymSet): raise Unsupported('for over SymSet')
            for x in it:
                self.assign(st.target, x, env)
                for s in st.body: self.stmt(s, env)
            return
        if isinstance(st, ast.If):
            c = self.ev(st.test, env)
            if isinstance(c, SymSet): c = c.nonempty()
            if isinstance(c, z3.BoolRef):
                if len(st.body) == 1 and isinstance(st.body[0], ast.Raise) and not st.orelse:
                    exc = st.body[0].exc
                    self.raises.append((z3.And(self.pc, c), exc.func.id, st.lineno))
                    self.pc = z3.And(self.pc, z3.Not(c)); return
                raise Unsupported('symbolic if with non-raise body')
            for s in (st.body if c else st.orelse): self.stmt(s, env)
            return
        raise Unsupported(type(st).__name__)
    def assign(self, t, v, env):
        if isinstance(t, ast.Name): env[t.id] = v
        elif isinstance(t, (ast.Tuple, ast.List)):
            v = list(v); assert len(v) == len(t.elts)
            for tt, vv in zip(t.elts, v): self.assign(tt, vv, env)
        else: raise Unsupported('assign target')
    def ev(self, e, env):
        if isinstance(e, ast.Constant): return e.value
        if isinstance(e, ast.Name):
            if e.id in env: return env[e.id]
            if e.id in env['__glob__']: return env['__glob__'][e.id]
            return getattr(__builtins__, e.id)
        if isinstance(e, (ast.Tuple, ast.List)): 
            vals = [self.ev(x, env) for x in e.elts]
            return tuple(vals) if isinstance(e, ast.Tuple) else vals
        if isinstance(e, ast.Attribute):
            base = self.ev(e.value, env)
            if isinstance(base, tuple) and base and base[0] == 'fb':
                fb = base[1]
                if e.attr == 'get_arg_names': return lambda: fb.req | fb.opt
                if e.attr == 'get_defaults_dict': return lambda: ('defaults', fb.opt)
            if isinstance(base, tuple) and base and base[0] == 'defaults' and e.attr == '__contains__':
                return ('contains', base[1])
            if isinstance(base, SymSet) and e.attr == 'update':
                def upd(o, base=base):
                    n = base | o; base.b = n.b
                return upd
            return getattr(base, e.attr)
        if isinstance(e, ast.Call):
            fn = self.ev(e.func, env)
            args = []
            for a in e.args:
                if isinstance(a, ast.Starred): args.extend(self.ev(a.value, env))
                else: args.append(self.ev(a, env))
            kwargs = {k.arg: self.ev(k.value, env) for k in e.keywords}
            if getattr(fn, '__name__', '') == 'partition' and 'key' in kwargs and isinstance(kwargs['key'], tuple) and kwargs['key'][0] == 'contains':
                S, D = args[0], kwargs['key'][1]; return (S & D, S - D)
            if callable(fn) and getattr(fn, '__name__', '') in ('<lambda>', 'upd'): return fn(*args)
            return self.call(fn, args, kwargs)
        if isinstance(e, ast.BinOp):
            l, r = self.ev(e.left, env), self.ev(e.right, env)
            if isinstance(l, SymSet) or isinstance(r, SymSet):
                l = SymSet.of(l); 
                if isinstance(e.op, ast.BitOr): return l | r
                if isinstance(e.op, ast.BitAnd): return l & r
                if isinstance(e.op, ast.Sub): return l - r
            if isinstance(e.op, ast.Add): return l + r
            if isinstance(e.op, ast.Mod): return '<msg>'
            raise Unsupported(ast.dump(e.op))
        if isinstance(e, ast.BoolOp) and isinstance(e.op, ast.Or):
            v = None
            for x in e.values:
                v = self.ev(x, env)
                if isinstance(v, (SymSet, z3.BoolRef)): raise Unsupported('symbolic or')
                if v: return v
            return v
        if isinstance(e, ast.Compare) and len(e.ops) == 1 and isinstance(e.ops[0], ast.In):
            l, r = self.ev(e.left, env), self.ev(e.comparators[0], env)
            if isinstance(r, SymSet): return r.contains(l)
            return l in r
        if isinstance(e, ast.ListComp) and len(e.generators) == 1:
            g = e.generators[0]; out = []
            for x in self.ev(g.iter, env):
                env2 = dict(env); self.assign(g.target, x, env2)
                if all(self.ev(c, env2) for c in g.ifs): out.append(self.ev(e.elt, env2))
            return out
        raise Unsupported(ast.dump(e)[:80])

class _Return(Exception):
    def __init__(self, v): self.v = v

class Tok:  # stands for a function object
    def __init__(self, name): self.name = name
    def __bool__(self): return True
    def __repr__(self): return self.name
class MW:
    def __init__(self, i, phases):
        self.request = Tok('m%d.request' % i) if 'q' in phases else None
        self.endpoint = Tok('m%d.endpoint' % i) if 'e' in phases else None
        self.render = Tok('m%d.render' % i) if 'r' in phases else None
        self.provides = SymSet({n: z3.Bool('m%d_pq_%s' % (i, n)) for n in ALPHA}) if 'q' in phases else SymSet()
        self.endpoint_provides = SymSet({n: z3.Bool('m%d_pe_%s' % (i, n)) for n in ALPHA}) if 'e' in phases else SymSet()
        self.render_provides = SymSet({n: z3.Bool('m%d_pr_%s' % (i, n)) for n in ALPHA}) if 'r' in phases else SymSet()

def sig(tok, is_mw, allow_ctx=True):
    req = SymSet({n: z3.Bool('%s_req_%s' % (tok.name, n)) for n in U if n != 'next'})
    opt = SymSet({n: z3.Bool('%s_opt_%s' % (tok.name, n)) for n in U if n != 'next'})
    if is_mw: req.b['next'] = z3.BoolVal(True)
    wf = z3.And(*[z3.Not(z3.And(req.b[n], opt.b[n])) for n in U])
    return FB(req, opt), wf

def check_shape(shape):
    mws = [MW(i, ph) for i, ph in enumerate(shape)]
    ep, rn = Tok('ep'), Tok('rn')
    sigs = {}; wfs = []
    for m in mws:
        for f in (m.request, m.endpoint, m.render):
            if f: sigs[id(f)], wf = sig(f, True); wfs.append(wf)
    for f in (ep, rn): sigs[id(f)], wf = sig(f, False); wfs.append(wf)
    url = SymSet({n: z3.Bool('url_%s' % n) for n in ALPHA}); res = SymSet({n: z3.Bool('res_%s' % n) for n in ALPHA})
    provided = url | res | SymSet.of(BUILTINS)
    it = Interp(sigs)
    it.run(core.make_middleware_chain, [mws, ep, rn, provided], {})
    impl_reject = z3.Or(*[c for c, _, _ in it.raises]) if it.raises else z3.BoolVal(False)
    # ---- declarative spec
    base = url | res | SymSet.of(['request', '_application', '_route', '_dispatch_state'])
    ok = []
    def need(fb, avail, is_mw):
        for n in U:
            if n == 'next' and is_mw: continue
            ok.append(z3.Implies(fb.req.b[n], avail.b[n]))
    acc = base.copy(); allq = SymSet()
    for m in mws:
        if m.request: need(sigs[id(m.request)], acc, True); acc = acc | m.provides; allq = allq | m.provides
    eb = base | allq; acc = eb.copy(); alle = SymSet()
    for m in mws:
        if m.endpoint: need(sigs[id(m.endpoint)], acc, True); acc = acc | m.endpoint_provides
    need(sigs[id(ep)], acc, False)
    acc = eb | SymSet.of(['context'])
    for m in mws:
        if m.render: need(sigs[id(m.render)], acc, True); acc = acc | m.render_provides
    need(sigs[id(rn)], acc, False)
    spec_accept = z3.And(*ok)
    # wellformed: no 'next' in ep/rn, provides disjoint from each other & from url/res (conflict-free)
    wfs.append(z3.Not(z3.Or(sigs[id(ep)].req.b['next'], sigs[id(ep)].opt.b['next'], sigs[id(rn)].req.b['next'], sigs[id(rn)].opt.b['next'])))
    srcs = [url, res] + [s for m in mws for s in (m.provides, m.endpoint_provides, m.render_provides)]
    for n in ALPHA:
        wfs.append(z3.AtMost(*[s.b[n] for s in srcs], 1))
    s = z3.Solver(); s.add(*wfs); s.add(impl_reject == spec_accept)
    r = s.check()
    return r, (s.model() if r == z3.sat else None), len(it.raises)

t = time.time(); n = 0
phases = ['q', 'e', 'r', 'qe', 'qr', 'er', 'qer']
for k in range(0, 3):
    for shape in itertools.product(phases, repeat=k):
        r, m, nr = check_shape(shape); n += 1
        if str(r) != 'unsat':
            print('shape', shape, r)
            trues = sorted(str(d) for d in m.decls() if z3.is_true(m[d]))
            print('  model true bits:', trues); 
            if '--all' not in sys.argv: sys.exit()
print('shapes', n, 'all unsat, %.1fs' % (time.time() - t))
