from typing import List
from clastic.route import build_converter

def multi_int(segs: List[str], seps: List[int], optional: bool) -> bool:
    """
    pre: len(segs) <= 2 and len(seps) == len(segs)
    pre: all(1 <= k <= 2 for k in seps)
    pre: all(1 <= len(s) <= 2 and all(c in '0123456789' for c in s) for s in segs)
    post: _
    """
    value = ''.join('/' * k + s for k, s in zip(seps, segs))
    conv = build_converter(int, optional=optional, multi=True)
    return conv(value) == [int(s) for s in segs]
