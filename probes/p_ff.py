import os
import clastic.static as st
from clastic.static import find_file
from purenorm import normpath
class _P:  # path shim: pure-python normpath, rest real
    def __getattr__(self, n): return getattr(os.path, n)
    normpath = staticmethod(normpath)
class _OS:
    def __getattr__(self, n): return getattr(os, n)
    path = _P()
st.os = _OS()
st.isfile = lambda p: True   # env stub: every candidate exists

def confined(path: str) -> bool:
    """
    pre: len(path) <= 6
    post: _
    raises: ValueError
    """
    full = find_file(['/srv/root'], path)
    n = normpath(full)
    return n == '/srv/root' or n.startswith('/srv/root/')

def twin(path: str) -> bool:
    """
    pre: len(path) <= 6
    post: not _
    raises: ValueError
    """
    full = find_file(['/srv/root'], path)
    return full == '/srv/root/a/b'
