import ast, posixpath, os as _os
src = open(posixpath.__file__).read()
tree = ast.parse(src)
fns = {n.name: n for n in reversed(list(ast.walk(tree))) if isinstance(n, ast.FunctionDef) and n.name in ('normpath', 'splitroot')}
class _OsShim:
    def __getattr__(self, n): return getattr(_os, n)
    @staticmethod
    def fspath(p): return p
ns = dict(vars(posixpath)); ns['os'] = _OsShim()
fn = [n for n in ast.walk(tree) if isinstance(n, ast.FunctionDef) and n.name == 'normpath' and 'new_comps' in ast.dump(n)][0]
sr = [n for n in ast.walk(tree) if isinstance(n, ast.FunctionDef) and n.name == 'splitroot'][0]
exec(compile(ast.Module([sr, fn], []), 'posixpath_normpath', 'exec'), ns)
normpath = ns['normpath']
