from clastic.flaw import _ParsedTB
def parse_std(T: str, M: str) -> bool:
    """
    pre: 1 <= len(T) <= 3 and len(M) <= 3
    pre: all(c in 'ABab_' for c in T)
    pre: chr(10) not in M and chr(13) not in M and M.strip() == M and M.splitlines() in ([], [M])
    post: _
    """
    tb = 'Traceback (most recent call last):\n  File "f.py", line 1, in g\n    src\n' + T + ': ' + M
    p = _ParsedTB.from_string(tb)
    return p.exc_type == T and p.exc_msg.strip() == M
