from clastic.route import normalize_path

def idem(path: str) -> bool:
    """
    pre: len(path) <= 6
    post: _
    """
    n = normalize_path(path, True)
    return normalize_path(n, True) == n and n.startswith('/') and n.endswith('/') and '//' not in n

def segs(path: str) -> bool:
    """
    pre: len(path) <= 6
    post: _
    """
    n = normalize_path(path, True)
    return [s for s in n.split('/') if s] == [s for s in path.split('/') if s]

def twin(path: str) -> bool:
    """
    pre: len(path) <= 6
    post: not _
    """
    n = normalize_path(path, True)
    return n == '/a/b/'
