import linecache, warnings; warnings.filterwarnings('ignore')
from clastic import Application, Route
from clastic.middleware import Middleware
from werkzeug.wrappers import Response
class M1(Middleware):
    provides = ('x',); endpoint_provides = ('y',); render_provides = ('z',)
    def request(self, next, request): return next(x=1)
    def endpoint(self, next, x): return next(y=2)
    def render(self, next, context, y=None): return next(z=3)
class M2(Middleware):
    def request(self, next, x, a): return next()
def ep(a, x, y, r1): return {}
def rn(context, z, x): return Response('ok')
app = Application([Route('/<a>', ep, rn, middlewares=[M2()])], resources={'r1': object()}, middlewares=[M1()])
for k, v in linecache.cache.items():
    if k.startswith('<sinter generated'):
        print('#', k); print(''.join(v[2]))
