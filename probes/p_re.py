import re, time, sys
import re._parser as sp, re._constants as sc
import z3
from clastic.route import _compile_path_pattern

SIGMA = "/ab1.-+ eé"

def cls_chars(items, negate=False):
    # evaluate char class over SIGMA using python re itself
    out = []
    for ch in SIGMA:
        m = False
        for op, av in items:
            if op is sc.LITERAL: m |= (ord(ch) == av)
            elif op is sc.RANGE: m |= (av[0] <= ord(ch) <= av[1])
            elif op is sc.CATEGORY:
                pat = {sc.CATEGORY_DIGIT: r'\d', sc.CATEGORY_WORD: r'\w', sc.CATEGORY_SPACE: r'\s',
                       sc.CATEGORY_NOT_DIGIT: r'\D', sc.CATEGORY_NOT_WORD: r'\W', sc.CATEGORY_NOT_SPACE: r'\S'}[av]
                m |= bool(re.fullmatch(pat, ch))
            elif op is sc.NEGATE: pass
            else: raise NotImplementedError(op)
        out.append(m)
    neg = any(op is sc.NEGATE for op, _ in items)
    return [c for c, m in zip(SIGMA, out) if m != neg]

def union(rs):
    rs = list(rs)
    if not rs: return z3.Empty(z3.ReSort(z3.StringSort()))
    if len(rs) == 1: return rs[0]
    return z3.Union(*rs)

def tr(seq):
    parts = []
    for op, av in seq:
        if op is sc.LITERAL: parts.append(z3.Re(chr(av)))
        elif op is sc.NOT_LITERAL: parts.append(union(z3.Re(c) for c in SIGMA if ord(c) != av))
        elif op is sc.IN: parts.append(union(z3.Re(c) for c in cls_chars(av)))
        elif op is sc.ANY: parts.append(union(z3.Re(c) for c in SIGMA if c != '\n'))
        elif op is sc.SUBPATTERN: parts.append(tr(av[3]))
        elif op is sc.BRANCH: parts.append(union(tr(b) for b in av[1]))
        elif op in (sc.MAX_REPEAT, sc.MIN_REPEAT):
            lo, hi, sub = av; r = tr(sub)
            if hi is sc.MAXREPEAT:
                parts.append(z3.Star(r) if lo == 0 else z3.Plus(r) if lo == 1 else z3.Concat(z3.Loop(r, lo, lo), z3.Star(r)))
            else: parts.append(z3.Option(r) if (lo,hi)==(0,1) else z3.Loop(r, lo, hi))
        elif op is sc.AT:
            if av in (sc.AT_BEGINNING,): continue
            if av is sc.AT_END: parts.append(z3.Option(z3.Re('\n'))) if '\n' in SIGMA else None; continue
            raise NotImplementedError(av)
        else: raise NotImplementedError(op)
    if not parts: return z3.Re('')
    return parts[0] if len(parts)==1 else z3.Concat(*parts)

def spec(elements, branch, strict):
    D = union(z3.Re(c) for c in "0123456789" if c in SIGMA)
    seg = {'str': z3.Plus(union(z3.Re(c) for c in SIGMA if c != '/')),
           'int': z3.Concat(z3.Option(z3.Union(z3.Re('+'), z3.Re('-'))), z3.Star(z3.Re(' ')), z3.Plus(D))}
    sep = z3.Re('/') if strict else z3.Plus(z3.Re('/'))
    parts = []
    for e in elements:
        if e[0] == 'lit': parts.append(z3.Concat(sep, z3.Re(e[1])))
        else:
            _, typ, op = e
            u = z3.Concat(sep, seg[typ])
            parts.append({'': u, '?': z3.Option(u), '*': z3.Star(u), '+': z3.Plus(u)}[op])
    if strict:
        if branch: parts.append(z3.Re('/'))
    else:
        parts.append(z3.Star(z3.Re('/')))
    return z3.Concat(*parts) if len(parts) > 1 else parts[0]

tests = [('/a/<x*int>/<y*>/b/', [('lit','a'),('b','int','*'),('b','str','*'),('lit','b')], True),
         ('/<x?>/a/<y+int>', [('b','str','?'),('lit','a'),('b','int','+')], False),
         ('/a/<x>/<y?int>/<z*>', [('lit','a'),('b','str',''),('b','int','?'),('b','str','*')], False)]
for pat, els, branch in tests:
  for mode in ('strict','redirect'):
    rx, _ = _compile_path_pattern(pat, mode)
    impl = tr(sp.parse(rx.pattern))
    sp_ = spec(els, branch, mode=='strict')
    for N in (8, 12):
        s = z3.String('p'); sol = z3.Solver(); sol.set('timeout', 60000)
        sol.add(z3.Length(s) <= N)
        sol.add(z3.InRe(s, z3.Star(union(z3.Re(c) for c in SIGMA))))
        sol.add(z3.InRe(s, impl) != z3.InRe(s, sp_))
        t=time.time(); r = sol.check(); dt=time.time()-t
        print(pat, mode, N, r, '%.2fs'%dt, sol.model()[s] if r==z3.sat else '')
print('--- mutation witnesses')
for pat, els, branch in tests:
    rx, _ = _compile_path_pattern(pat, 'redirect')
    impl = tr(sp.parse(rx.pattern))
    sp_ = spec(els, branch, True)   # wrong-mode spec
    s = z3.String('p'); sol = z3.Solver(); sol.set('timeout', 60000)
    sol.add(z3.Length(s) <= 12, z3.InRe(s, z3.Star(union(z3.Re(c) for c in SIGMA))))
    sol.add(z3.InRe(s, impl) != z3.InRe(s, sp_))
    t=time.time(); r = sol.check(); print(pat, r, '%.2fs'%(time.time()-t), sol.model()[s] if r==z3.sat else '')
# semantically-equal but structurally different spec: int as (sign? space* digit+) vs alternative decomposition
import itertools
rx,_ = _compile_path_pattern('/<x*int>/<y*int>', 'redirect')
impl = tr(sp.parse(rx.pattern))
D = union(z3.Re(c) for c in "1")
I = z3.Concat(z3.Option(z3.Union(z3.Re('+'), z3.Re('-'))), z3.Star(z3.Re(' ')), z3.Plus(D))
alt = z3.Concat(z3.Star(z3.Concat(z3.Plus(z3.Re('/')), I)), z3.Star(z3.Re('/')))  # x* y* collapses to single star
s = z3.String('p'); sol = z3.Solver(); sol.set('timeout', 120000)
sol.add(z3.Length(s) <= 12, z3.InRe(s, z3.Star(union(z3.Re(c) for c in SIGMA))))
sol.add(z3.InRe(s, impl) != z3.InRe(s, alt))
t=time.time(); r = sol.check(); print('collapse', r, '%.2fs'%(time.time()-t), sol.model()[s] if r==z3.sat else '')
