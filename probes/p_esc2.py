from html import escape

def esc_ok(s: str) -> bool:
    """
    pre: len(s) <= 3
    post: _
    """
    out = escape(s, True)
    return '<' not in out and '>' not in out and '"' not in out and "'" not in out

def esc_twin(s: str) -> bool:
    """
    pre: len(s) <= 3
    post: not _
    """
    out = escape(s, True)
    return out == '&lt;a&amp;'
