from clastic.meta import get_resource_info
class Res:
    def __init__(self, pairs): self.pairs = pairs
    def items(self): return list(self.pairs)
class App: pass
def redact(p: str, s: str, val: str) -> bool:
    """
    pre: len(p) <= 1 and len(s) <= 1 and len(val) <= 2
    post: _
    """
    a = App(); a.resources = Res([(p + 'secret' + s, val), ('plain', 'vis')])
    info = get_resource_info(a)
    return info[0]['value'] == '[REDACTED]' and info[1]['value'] == "'vis'"
def redact_neg(k: str) -> bool:
    """
    pre: len(k) <= 6
    post: _
    """
    a = App(); a.resources = Res([(k, 7)])
    info = get_resource_info(a)
    return (info[0]['value'] == '[REDACTED]') == (k == 'secret') and (k == 'secret' or info[0]['value'] == '7')
