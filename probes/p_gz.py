from clastic.middleware.compress import GzipMiddleware
import clastic.middleware.compress as C
from clastic.errors import NotFound, MethodNotAllowed
from werkzeug.wrappers import Response

class Req(object):
    def __init__(self, q, browser): 
        self.accept_encodings = {'gzip': q}; 
        class UA: pass
        self.user_agent = UA(); self.user_agent.browser = browser

def gz(kind: int, body: bytes, q: int, clen: int) -> bool:
    """
    pre: 0 <= kind <= 2 and len(body) <= 3 and 0 <= q <= 1 and 0 <= clen <= 5
    post: _
    """
    comp = b'Z' * clen
    C.gzip_bytes = lambda data, level: comp
    if kind == 0: inner = Response(body)
    elif kind == 1: inner = NotFound()
    else: inner = MethodNotAllowed(['GET'])
    status0, data0 = inner.status_code, inner.get_data()
    out = GzipMiddleware().request(lambda: inner, Req(q, None))
    if out.status_code != status0: return False
    if out.headers.get('Content-Encoding') == 'gzip':
        return q > 0 and out.get_data() == comp and len(comp) < len(data0) and out.content_length == len(comp)
    return out.get_data() == data0
