import clastic.render.simple as RS
class Rec:
    def __init__(self, body, mimetype=None, **kw): self.body, self.mimetype, self.status_code = body, mimetype, 200
RS.Response = Rec
class Args:
    def get(self, k, d=None): return None
class Req:
    args = Args(); accept_mimetypes = None
def rb_bytes(b: bytes) -> bool:
    """
    pre: len(b) <= 4
    post: _
    """
    r = RS.render_basic(b, Req(), None)
    isj = len(b) >= 2 and ((b[:1] == b'{' and b[-1:] == b'}') or (b[:1] == b'[' and b[-1:] == b']'))
    return r.status_code == 200 and (r.mimetype == 'application/json') == isj and r.body == b
def rb_str(s: str) -> bool:
    """
    pre: len(s) <= 3
    post: _
    """
    r = RS.render_basic(s, Req(), None)
    isj = len(s) >= 2 and ((s[:1] == '{' and s[-1:] == '}') or (s[:1] == '[' and s[-1:] == ']'))
    return (r.mimetype == 'application/json') == isj
