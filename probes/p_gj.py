from clastic.render.simple import BasicRender

def guess(b: bytes) -> bool:
    """
    pre: len(b) <= 4
    post: _
    """
    g = BasicRender._guess_json(b)
    want = len(b) >= 2 and ((b[:1] == b'{' and b[-1:] == b'}') or (b[:1] == b'[' and b[-1:] == b']'))
    return (not want) or g
