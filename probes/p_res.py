from typing import List, Tuple
import clastic.middleware.stats as S

def reservoir_inv(cap: int, ops: List[Tuple[int, int]], rnd: List[int]) -> bool:
    """
    pre: 1 <= cap <= 3
    pre: len(ops) <= 5
    pre: len(rnd) == len(ops)
    pre: all(0 <= k <= 1 and 0 <= v <= 4 for k, v in ops)
    post: _
    """
    it = iter(rnd)
    r = S.Reservoir(cap=cap)
    orig = S.fast_randint
    S.fast_randint = lambda a, b: min(max(next(it), a), b)   # env stub: any int in [a, b]
    try:
        added = []
        capn = cap
        for k, v in ops:
            if k == 0:
                r.add(v + 100); added.append(v + 100)
            else:
                capn = max(1, v); r.resize(capn)
        data = list(r)
        return r.total_count == len(added) and len(data) <= capn and all(d in added for d in data)
    finally:
        S.fast_randint = orig
