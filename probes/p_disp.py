from typing import List, Tuple
from clastic.application import Application, DispatchState
from clastic.errors import HTTPException, NotFound, Forbidden, InternalServerError, MethodNotAllowed
from werkzeug.wrappers import Response, Request
from werkzeug.test import EnvironBuilder

APP = Application([])
REQ = Request(EnvironBuilder(path='/x', method='GET').get_environ())

class StubRoute(object):
    """Symbolic stand-in for a BoundRoute: only the attributes dispatch() touches."""
    is_branch = False
    slash_mode = 'redirect'
    def __init__(self, idx, pmatch, mallow, beh):
        self.idx, self.pmatch, self.mallow, self.beh = idx, pmatch, mallow, beh
        self.methods = set(['M%d' % idx])
        self.render_error = None
    def match_path(self, path):
        return {} if self.pmatch else None
    def match_method(self, method):
        return self.mallow
    def execute(self, **kw):
        b = self.beh
        if b == 0: return Response('R%d' % self.idx)
        if b == 1: raise NotFound(is_breaking=False, detail='N%d' % self.idx)
        if b == 2: return Forbidden(is_breaking=False, detail='N%d' % self.idx)
        if b == 3: raise Forbidden(detail='B%d' % self.idx)
        if b == 4: raise ValueError('U%d' % self.idx)
        return 'notaresponse'
    def execute_error(self, request, _error, **kw):
        return _error

def spec(table):
    last_nb = None; allowed = set(); 
    for i, (pm, ma, b) in enumerate(table):
        if not pm: continue
        if not ma:
            allowed.add('M%d' % i); continue
        if b == 0: return ('resp', i)
        if b in (1, 2): last_nb = i; continue
        if b == 3: return ('break', i)
        return ('500', i)
    if last_nb is not None: return ('nb', last_nb)
    if allowed: return ('405', sorted(allowed))
    return ('404', None)

def dispatch_ok(table: List[Tuple[bool, bool, int]]) -> bool:
    """
    pre: len(table) <= 3
    pre: all(0 <= b <= 5 for _, _, b in table)
    post: _
    """
    app = APP
    app.routes = [StubRoute(i, pm, ma, b) for i, (pm, ma, b) in enumerate(table)]
    try:
        ret = app.dispatch(REQ)
    finally:
        app.routes = []
    kind, who = spec(table)
    if kind == 'resp': return isinstance(ret, Response) and ret.get_data() == b'R%d' % who
    if kind == 'nb': return isinstance(ret, HTTPException) and ret.detail == 'N%d' % who
    if kind == 'break': return isinstance(ret, Forbidden) and ret.detail == 'B%d' % who
    if kind == '500': return isinstance(ret, InternalServerError) and ret.code == 500
    if kind == '405': return isinstance(ret, MethodNotAllowed) and sorted(ret.allowed_methods) == who
    return isinstance(ret, NotFound) and ret.code == 404
