from typing import List
from clastic.application import Application, SubApplication

class RF(object):
    """route factory stub: bind_all returns n markers"""
    def __init__(self, n): self.n = n
    rebind_render = True; inherit_slashes = True
    def bind_all(self, app, **kw): return ['new%d' % i for i in range(self.n)]
import clastic.application as A
A.cast_to_route_factory = lambda e: e

def add_contig(nold: int, nnew: int, index: int) -> bool:
    """
    pre: 0 <= nold <= 3 and 0 <= nnew <= 3
    post: _
    """
    app = Application.__new__(Application)
    old = ['old%d' % i for i in range(nold)]
    app.routes = list(old)
    app.add(RF(nnew), index)
    r = app.routes
    news = [x for x in r if x.startswith('new')]
    olds = [x for x in r if x.startswith('old')]
    if olds != old or news != ['new%d' % i for i in range(nnew)]: return False
    if nnew == 0: return True
    first = r.index('new0')
    return r[first:first + nnew] == news
