from typing import List
import binascii
import secure_cookie.cookie as sc
from clastic.middleware.cookie import JSONCookie

class _Mac:
    def __init__(self, dig): self.dig = dig
    def update(self, b): pass
    def digest(self): return self.dig

def unser(s: bytes, mac_ok: bool, b64_fail: bool, json_fail: bool, now: int, exp: int) -> bool:
    """
    pre: len(s) <= 6
    post: _
    """
    o_hmac, o_b64, o_cmp, o_time, o_unq = sc.hmac, sc.base64.b64decode, sc.safe_str_cmp, sc.time, JSONCookie.unquote
    class _B64:
        @staticmethod
        def b64decode(x):
            if b64_fail: raise binascii.Error('bad padding')
            return b'D'
        b64encode = staticmethod(lambda x: x)
    def unq(v):
        if json_fail: raise sc.UnquoteError()
        return exp if v == b'E' else 1
    sc.hmac = lambda k, m, h: _Mac(b'M'); sc.base64 = _B64; sc.safe_str_cmp = lambda a, b: mac_ok; sc.time = lambda: now
    JSONCookie.unquote = staticmethod(unq)
    try:
        c = JSONCookie.unserialize(s.decode('latin-1'), b'key')
        return mac_ok or len(c) == 0
    finally:
        import base64
        sc.hmac, sc.base64, sc.safe_str_cmp, sc.time = o_hmac, base64, o_cmp, o_time
        JSONCookie.unquote = o_unq
