from clastic.errors import BadRequest
def mk(detail, message, error_type):
    e = BadRequest.__new__(BadRequest)
    e.detail = detail; e.message = message; e.code = 400; e.error_type = error_type
    return e
PRE = '<http_error><code>400</code><message>m</message><detail>'
SUF = '</detail><error_type></error_type></http_error>'
def xml_detail(detail: str) -> bool:
    """
    pre: len(detail) <= 3
    post: _
    """
    out = mk(detail, 'm', None).to_xml()
    if not (out.startswith(PRE) and out.endswith(SUF)): return False
    mid = out[len(PRE):len(out) - len(SUF)]
    return '<' not in mid and '>' not in mid
def xml_twin(detail: str) -> bool:
    """
    pre: len(detail) <= 3
    post: not _
    """
    out = mk(detail, 'm', None).to_xml()
    return '&lt;b&gt;' in out
