"""Symbolic application configurations for E2 (C01, C04): implementation side (interpreted real code),
declarative spec side, and materialisation of a z3 model as real callables / a real Application."""
import itertools, random, types
import z3
from .e2_setalg import (SymSet, AbstractDict, Sig, Tok, MW, Interp, Unsupported, U, ALPHA, BUILTINS, REQ_BUILTINS, T, F)

PHASES = ['q', 'e', 'r', 'qe', 'qr', 'er', 'qer']


class NS(object):
    def __init__(self, **kw):
        self.__dict__.update(kw)


def _modules():
    import clastic.sinter as S
    import clastic.middleware.core as C
    import clastic.route as R
    import clastic.application as A
    return dict(sinter=S, core=C, route=R, application=A)


def fixed_sig(name, required):
    sg = Sig(name, False, allow_posonly=False)
    sg.present = {n: (T() if n in required else F()) for n in U}
    sg.dflt = {n: F() for n in U}
    sg.kw = {n: F() for n in U}
    sg.po = {n: F() for n in U}
    return sg


class Config(object):
    """shape = (tuple of phase strings for application-level mws, tuple for route-level mws)"""
    def __init__(self, shape):
        self.shape = shape
        self.app_mws = [MW('A%d' % i, ph) for i, ph in enumerate(shape[0])]
        self.route_mws = [MW('R%d' % i, ph) for i, ph in enumerate(shape[1])]
        self.ep, self.rn = Tok('ep'), Tok('rn')
        self.null_ep, self.null_rn = Tok('null_ep'), Tok('null_rn')
        self.sigs = {}
        self.fsigs = []       # (token, Sig, kind) for the symbolic functions
        for m in self.app_mws + self.route_mws:
            for f, ph in m.funcs():
                sg = Sig(f.name, True, allow_posonly=False)
                self.sigs[id(f)] = sg
                self.fsigs.append((f, sg, ph))
        for f, kind in ((self.ep, 'ep'), (self.rn, 'rn')):
            sg = Sig(f.name, False, allow_posonly=True)
            self.sigs[id(f)] = sg
            self.fsigs.append((f, sg, kind))
        self.sigs[id(self.null_ep)] = fixed_sig('null_ep', REQ_BUILTINS)
        self.sigs[id(self.null_rn)] = fixed_sig('null_rn', ['context'])
        self.url = SymSet({n: z3.Bool('url.%s' % n) for n in U})
        self.app_res = SymSet({n: z3.Bool('appres.%s' % n) for n in U})
        self.route_res = SymSet({n: z3.Bool('routeres.%s' % n) for n in U})
        self.modules = _modules()

    def valid(self):
        return z3.And(*[sg.valid() for _, sg, _ in self.fsigs])

    def all_vars(self):
        vs = []
        for _, sg, _ in self.fsigs:
            for d in (sg.present, sg.dflt, sg.kw, sg.po):
                vs += [v for v in d.values() if z3.is_const(v) and v.decl().kind() == z3.Z3_OP_UNINTERPRETED]
            if sg.is_mw:
                vs.append(sg.first_next)
        for m in self.app_mws + self.route_mws:
            for ss in (m.provides, m.endpoint_provides, m.render_provides):
                vs += [v for v in ss.b.values() if z3.is_const(v) and v.decl().kind() == z3.Z3_OP_UNINTERPRETED]
        for ss in (self.url, self.app_res, self.route_res):
            vs += list(ss.b.values())
        return vs

    # ------------------------------------------------------------------ implementation side
    def _cyclic(self, mws, ep):
        """summary of BoundRoute._resolve_required_args -> resolve_deps: RuntimeError iff the provides graph has a cycle
        (edges: provided name -> every positional parameter of the providing function)."""
        adj = {p: {q: F() for q in U} for p in U}
        for m in mws:
            for f, prov in ((m.request, m.provides), (m.endpoint, m.endpoint_provides), (m.render, m.render_provides)):
                if not f:
                    continue
                pos = self.sigs[id(f)].positional_args()
                for p in U:
                    for q in U:
                        adj[p][q] = z3.Or(adj[p][q], z3.And(prov.b[p], pos.b[q]))
        reach = adj
        for _ in range(4):      # paths up to length 16 >= |U|
            reach = {p: {q: z3.Or(reach[p][q], *[z3.And(reach[p][k], reach[k][q]) for k in U]) for q in U} for p in U}
        return z3.Or(*[reach[p][p] for p in U])

    def run_impl(self):
        M = self.modules
        it = Interp(dict(self.sigs), M)
        A, R, C = M['application'], M['route'], M['core']
        # Application.__init__: reserved resource names, then check_middlewares(self.middlewares)
        env = {'self': NS(resources=AbstractDict(self.app_res))}
        it.run_fragment(A.Application.__init__, ['resource_conflicts', 'if:resource_conflicts'], env)
        it.run(C.check_middlewares, [list(self.app_mws)], {})
        cyc = []

        def bind(mws, url, resources, ep, rn, label):
            # first bind of a Route object: `route` IS the unbound route (no _execute, no bound_apps yet)
            unbound = NS(endpoint=ep, render=rn, middlewares=[m for m in mws if m not in self.app_mws])
            env = {'self': NS(converters=AbstractDict(url), resources=AbstractDict(resources), middlewares=tuple(mws)),
                   'unbound_route': unbound, 'route': unbound, 'render': rn, 'app_mws': list(self.app_mws),
                   'app': NS(middlewares=list(self.app_mws), resources=AbstractDict(self.app_res))}
            it.run_fragment(R.BoundRoute.__init__, ['src_provides_map', 'check_middlewares', 'provided', '_execute'], env)
            c = self._cyclic(mws, ep)
            cyc.append(c)
            it.raises.append((z3.And(it.pc, c), 'RuntimeError', 'resolve_deps[%s]' % label))
            it.pc = z3.And(it.pc, z3.Not(c))
        null_url = SymSet(extra=['_ignored'])
        bind(self.app_mws, null_url, self.app_res, self.null_ep, self.null_rn, 'null')
        bind(self.app_mws + self.route_mws, self.url, self.app_res | self.route_res, self.ep, self.rn, 'route')
        self.interp = it
        self.raises = it.raises
        self.accept_impl = z3.Not(z3.Or(*[c for c, _, _ in it.raises])) if it.raises else T()
        self.cyclic = z3.Or(*cyc)
        return it

    def exc_is(self, names):
        """z3: an exception is raised and the first one (program order) has one of these type names."""
        return z3.Or(*[c for c, n, _ in self.raises if n in names]) if self.raises else F()

    # ------------------------------------------------------------------ declarative side
    def spec(self):
        sig = lambda f: self.sigs[id(f)]
        base_route = self.url | self.app_res | self.route_res | SymSet.of(REQ_BUILTINS)
        base_null = self.app_res | SymSet.of(REQ_BUILTINS) | SymSet(extra=['_ignored'])
        ok = []

        def need(sg, avail, is_mw):
            for n in U:
                if n == 'next' and is_mw:
                    continue
                # a parameter without default must have a source, and must be suppliable by name
                ok.append(z3.Implies(z3.And(sg.present[n], z3.Not(sg.dflt[n])),
                                     z3.And(avail.contains(n), z3.Not(sg.po[n]))))

        def chain(mws, base, ep, rn):
            acc = base.copy()
            allq = SymSet()
            for m in mws:
                if m.request:
                    need(sig(m.request), acc, True)
                    acc = acc | m.provides
                    allq = allq | m.provides
            eb = base | allq
            acc = eb.copy()
            for m in mws:
                if m.endpoint:
                    need(sig(m.endpoint), acc, True)
                    acc = acc | m.endpoint_provides
            need(sig(ep), acc, False)
            acc = eb | SymSet.of(['context'])
            for m in mws:
                if m.render:
                    need(sig(m.render), acc, True)
                    acc = acc | m.render_provides
            need(sig(rn), acc, False)
        chain(self.app_mws, base_null, self.null_ep, self.null_rn)
        chain(self.app_mws + self.route_mws, base_route, self.ep, self.rn)
        self.deps_ok = z3.And(*ok)
        # C04 predicates
        mws = self.app_mws + self.route_mws
        conf = []
        res_any = self.app_res | self.route_res
        for n in U:
            srcs = [self.url.b[n], res_any.b[n], (T() if n in BUILTINS else F())]
            for m in mws:
                srcs += [m.provides.b[n], m.endpoint_provides.b[n], m.render_provides.b[n]]
            srcs = [s for s in srcs if not z3.is_false(s)]
            if len(srcs) >= 2:
                conf.append(z3.PbGe([(s, 1) for s in srcs], 2))
        self.conflict = z3.Or(*conf) if conf else F()
        self.first_param = z3.Or(*[z3.Not(sg.first_next) for _, sg, k in self.fsigs if sg.is_mw]) if mws else F()
        self.next_misuse = z3.Or(sig(self.ep).present['next'], sig(self.rn).present['next'])
        ctx = []
        for f, sg, kind in self.fsigs:
            if kind in ('q', 'e', 'ep'):
                ctx.append(z3.And(sg.present['context'], z3.Not(sg.dflt['context'])))
        self.context_misuse = z3.Or(*ctx) if ctx else F()
        self.c04_reject = z3.Or(self.conflict, self.first_param, self.next_misuse, self.context_misuse)

    # ------------------------------------------------------------------ models -> real objects
    def concrete(self, model):
        ev = lambda x: z3.is_true(model.eval(x, model_completion=True))
        fn = {}
        for f, sg, kind in self.fsigs:
            params = []
            for n in U:
                if ev(sg.present[n]):
                    params.append((n, ev(sg.dflt[n]), 'kw' if ev(sg.kw[n]) else ('po' if ev(sg.po[n]) else 'pos')))
            fn[f.name] = dict(params=params, first_next=ev(sg.first_next) if sg.is_mw else None, kind=kind)
        mws = []
        for m in self.app_mws + self.route_mws:
            mws.append(dict(name=m.mwname, level='app' if m in self.app_mws else 'route',
                            provides=[n for n in U if ev(m.provides.b[n])],
                            endpoint_provides=[n for n in U if ev(m.endpoint_provides.b[n])],
                            render_provides=[n for n in U if ev(m.render_provides.b[n])],
                            request=m.request.name if m.request else None,
                            endpoint=m.endpoint.name if m.endpoint else None,
                            render=m.render.name if m.render else None))
        return dict(shape=[list(self.shape[0]), list(self.shape[1])], funcs=fn, mws=mws,
                    url=[n for n in U if ev(self.url.b[n])], app_res=[n for n in U if ev(self.app_res.b[n])],
                    route_res=[n for n in U if ev(self.route_res.b[n])])


# ---------------------------------------------------------------------- materialisation
def param_text(params, first_next, with_self):
    """python parameter list realising the statuses (order: positional-only, /, positional required, defaulted, *, kw-only)."""
    po = [p for p in params if p[2] == 'po']
    pos = [p for p in params if p[2] == 'pos']
    kw = [p for p in params if p[2] == 'kw']
    items = []
    if with_self:
        items.append('self')

    def fmt(p):
        return '%s=%r' % (p[0], 'DEFAULT:' + p[0]) if p[1] else p[0]
    po_sorted = [p for p in po if not p[1]] + [p for p in po if p[1]]
    if first_next:
        nx = [p for p in pos if p[0] == 'next']
        rest = [p for p in pos if p[0] != 'next']
        pos_sorted = [p for p in rest if not p[1]] + [p for p in rest if p[1]]
        if nx and nx[0][1]:       # defaulted next first: everything after it must be defaulted too (checked by caller)
            pos_sorted = nx + pos_sorted
        else:
            pos_sorted = nx + pos_sorted
    else:
        nx = [p for p in pos if p[0] == 'next']
        rest = [p for p in pos if p[0] != 'next']
        req = [p for p in rest if not p[1]]
        dfl = [p for p in rest if p[1]]
        # `next` must not be first: put it after another parameter of the same default class when possible
        if nx:
            if nx[0][1]:
                pos_sorted = req + dfl + nx
            else:
                pos_sorted = req + nx + dfl
        else:
            pos_sorted = req + dfl
    if po_sorted:
        items += [fmt(p) for p in po_sorted] + ['/']
    items += [fmt(p) for p in pos_sorted]
    if kw:
        items += ['*'] + [fmt(p) for p in kw]
    return ', '.join(items), [p[0] for p in po_sorted + pos_sorted]


def realisable(fdesc):
    """can python syntax express this parameter list with the requested first-parameter property?"""
    params, fnx = fdesc['params'], fdesc['first_next']
    pos = [p for p in params if p[2] == 'pos']
    if fnx:
        nx = [p for p in pos if p[0] == 'next']
        if not nx:
            return False
        if nx[0][1] and any(not p[1] for p in pos if p[0] != 'next'):
            return False          # def f(next=1, a): syntax error
    elif fnx is False:
        text, order = param_text(params, False, False)
        if order and order[0] == 'next':
            return False          # no other positional parameter can precede it
        if any(p[0] == 'next' and p[2] == 'kw' for p in params) and not order:
            pass
    return True


class Boom(Exception):
    pass


def build_app(cfg, seed=0, record=None, beh=None):
    """real clastic objects for a concrete configuration.  Returns (app_or_None, exception_or_None, info).
    `record` (a list) receives ('enter', fname, kwargs) / ('leave'|'raise', fname) at request time; `beh` maps a
    function name to its behaviour (0 pass, 1 raise before next, 2 raise after next, 3 early Response, 4 swallow)."""
    from clastic import Application, Route
    from clastic.middleware import Middleware
    from clastic.decorators import clastic_decorator
    from werkzeug.wrappers import Response
    rnd = random.Random(seed)
    from clastic.errors import Forbidden
    ns = {'Response': Response, 'REC': record if record is not None else [], 'BEH': beh if beh is not None else {}, 'Boom': Boom,
          'CTX': {'ctx': 1}, 'Forbidden': Forbidden}

    def header(fname, d, with_self, first_next):
        ptext, _ = param_text(d['params'], first_next, with_self)
        names = [p[0] for p in d['params']]
        cap = ', '.join('%r: %s' % (n, n) for n in names)
        return ptext, cap

    def mw_src(fname, d, provides_kw):
        ptext, cap = header(fname, d, True, d['first_next'])
        return ('def {py}({p}):\n'
                '    REC.append(("enter", {f!r}, {{{cap}}}))\n'
                '    b = BEH.get({f!r}, 0)\n'
                '    if b == 1:\n        REC.append(("raise", {f!r})); raise Boom({f!r})\n'
                '    if b == 3:\n        REC.append(("leave", {f!r})); return Response("early:" + {f!r})\n'
                '    if b == 5:\n        REC.append(("leave", {f!r})); return Forbidden("returned:" + {f!r})\n'
                '    try:\n        r = next({kw})\n'
                '    except Exception:\n'
                '        if b == 4:\n            REC.append(("leave", {f!r})); return Response("swallow:" + {f!r})\n'
                '        REC.append(("raise", {f!r})); raise\n'
                '    if b == 2:\n        REC.append(("raise", {f!r})); raise Boom({f!r})\n'
                '    REC.append(("leave", {f!r})); return r\n').format(py=fname.replace('.', '_'), p=ptext, f=fname, cap=cap, kw=provides_kw)

    def leaf_src(fname, d, with_self, kind):
        ptext, cap = header(fname, d, with_self, None)
        ok = 'CTX' if kind == 'ep' else 'Response("ok")'
        return ('def {py}({p}):\n'
                '    REC.append(("enter", {f!r}, {{{cap}}}))\n'
                '    b = BEH.get({f!r}, 0)\n'
                '    if b == 1:\n        REC.append(("raise", {f!r})); raise Boom({f!r})\n'
                '    REC.append(("leave", {f!r}))\n'
                '    if b == 3:\n        return Response("early:" + {f!r})\n'
                '    if b == 5:\n        return Forbidden("returned:" + {f!r})\n'
                '    return {ok}\n').format(py=fname.replace('.', '_'), p=ptext, f=fname, cap=cap, ok=ok)

    def define(src, fname):
        exec(src, ns)
        return ns[fname.replace('.', '_')]

    mw_objs = {}
    for m in cfg['mws']:
        attrs = {'provides': tuple(m['provides']), 'endpoint_provides': tuple(m['endpoint_provides']),
                 'render_provides': tuple(m['render_provides']), 'sfx': ''}
        for phase, prov in (('request', 'provides'), ('endpoint', 'endpoint_provides'), ('render', 'render_provides')):
            if m[phase]:
                # the provided values carry the INSTANCE's suffix (class default ''): a second instance of the same
                # middleware class (e.g. the one of an embedding application) is distinguishable from this one
                if rnd.random() < 0.5:
                    kw = ', '.join('%s=%r + self.sfx' % (n, 'PROVIDED:%s:%s' % (m[phase], n)) for n in m[prov])
                else:       # positional call in the declared order of the provides tuple
                    kw = ', '.join('%r + self.sfx' % ('PROVIDED:%s:%s' % (m[phase], n),) for n in m[prov])
                attrs[phase] = define(mw_src(m[phase], cfg['funcs'][m[phase]], kw), m[phase])
        # distinct classes that all share ONE __name__: uniqueness is about the type, not about its name
        mw_objs[m['name']] = type('MW', (Middleware,), attrs)()
    kinds = ['function', 'lambda', 'method', 'callable_object', 'staticmethod', 'classmethod', 'decorated', 'wraps_late']
    epk = kinds[rnd.randrange(len(kinds))]
    rnk = kinds[rnd.randrange(len(kinds))]

    def wrap_kind(fname, kind, leafkind):
        d = cfg['funcs'][fname]
        if kind == 'lambda':
            inner = define(leaf_src(fname + '.impl', d, False, leafkind).replace(repr(fname + '.impl'), repr(fname)), fname + '.impl')
            ptext, _ = param_text(d['params'], None, False)
            po_sorted = [p for p in d['params'] if p[2] == 'po' and not p[1]] + [p for p in d['params'] if p[2] == 'po' and p[1]]
            call = ', '.join([p[0] for p in po_sorted] + ['%s=%s' % (p[0], p[0]) for p in d['params'] if p[2] != 'po'])
            ns['_impl_' + fname] = inner
            return eval('lambda %s: _impl_%s(%s)' % (ptext, fname, call), ns)
        if kind in ('method', 'callable_object', 'classmethod'):
            f = define(leaf_src(fname, d, True, leafkind), fname)
            if kind == 'method':
                return types.MethodType(f, type('Holder', (object,), {})())
            if kind == 'classmethod':
                cls = type('HolderC', (object,), {'m': classmethod(f)})
                return cls.m
            cls = type('CallableObj', (object,), {'__call__': f})
            return cls()
        f = define(leaf_src(fname, d, False, leafkind), fname)
        if kind == 'staticmethod':
            cls = type('HolderS', (object,), {'m': staticmethod(f)})
            return cls.m
        if kind == 'wraps_late':
            # functools.wraps around ANOTHER function (own signature: request only) that has already been bound and
            # served by an unrelated application: whatever clastic remembers about that function must not leak
            # into the analysis of the wrapper (wraps copies __dict__ and sets __wrapped__)
            import functools
            def earlier(request):
                return Response('earlier')
            from werkzeug.test import Client as _Client
            _Client(Application([('/', earlier)]), Response).get('/')
            return functools.wraps(earlier)(f)
        if kind == 'decorated':
            @clastic_decorator
            def deco(g):
                def wrapper(*a, **kw):
                    return g(*a, **kw)
                return wrapper
            return deco(f)
        return f
    ep = wrap_kind('ep', epk, 'ep')
    rn = wrap_kind('rn', rnk, 'rn')
    pattern = ''.join('/<%s>' % n for n in cfg['url']) or '/'
    info = dict(ep_kind=epk, rn_kind=rnk, pattern=pattern)
    try:
        route = Route(pattern, ep, rn, middlewares=[mw_objs[m['name']] for m in cfg['mws'] if m['level'] == 'route'],
                      resources=dict((n, 'RESOURCE:route:%s' % n) for n in cfg['route_res']))
        app = Application([route], resources=dict((n, 'RESOURCE:app:%s' % n) for n in cfg['app_res']),
                          middlewares=[mw_objs[m['name']] for m in cfg['mws'] if m['level'] == 'app'])
        info.update(ep=ep, rn=rn, mw_objs=mw_objs)
        return app, None, info
    except Exception as e:      # noqa
        return None, e, info


def cfg_realisable(cfg):
    for name, d in cfg['funcs'].items():
        if not realisable(d):
            return False
    return True
