"""Shared result/evidence plumbing for all engines."""
import json, os, time, tempfile, shutil, atexit, hashlib

VERIF = os.environ.get('VERIF_DEV_ROOT', '/verif')    # VERIF_DEV_ROOT: development copy of this tree (tools/triage.sh)
# registered commands always run against /repo; VERIF_TRIAGE_REPO is a development aid (tools/triage.sh) that points the
# same checks at a scratch copy and diverts evidence/replays to a scratch directory
REPO = os.environ.get('VERIF_TRIAGE_REPO', '/repo')
OUT = os.environ.get('VERIF_TRIAGE_OUT', VERIF)
PY = '/verif/.venv/bin/python'
NCPU = min(int(os.environ.get('VERIF_NCPU', 16)), os.cpu_count() or 4)

_scratch = None


def scratch():
    """mkdtemp outside /repo and /verif, removed at exit."""
    global _scratch
    if _scratch is None:
        _scratch = tempfile.mkdtemp(prefix='verif_run_')
        atexit.register(shutil.rmtree, _scratch, True)
    return _scratch


def sub_env(extra=None):
    env = dict(os.environ)
    env['PYTHONPATH'] = VERIF + ':' + REPO
    env['PYTHONDONTWRITEBYTECODE'] = '1'
    env['PYTHONWARNINGS'] = 'ignore'
    env['MAHMOUD_CLASTIC_VERIF'] = '1'
    env.setdefault('PYTHONHASHSEED', '0')
    if extra:
        env.update(extra)
    return env


class Result(object):
    def __init__(self, prop):
        self.prop = prop
        self.obligations = 0
        self.discharged = 0
        self.inconclusive = []     # [{name, reason}]
        self.violations = []       # [{name, args, how, replay}]
        self.known = []            # strings
        self.errors = []           # harness errors (exit 3)
        self.vacuous = []          # failed twins (exit 2)
        self.evaluations = 0
        self.queries = 0
        self.paths = 0
        self.solver_time_s = 0.0
        self.samples = []
        self.functions_encoded = []
        self.bounds = {}
        self.outside = []
        self.assumptions = []
        self.twins_ok = 0
        self.twins_total = 0
        self.nontrivial = 0
        self.traces_validated = 0
        self.engines = []
        self.cells = []            # per-cell records
        self.notes = []

    def merge(self, o):
        for k in ('obligations', 'discharged', 'evaluations', 'queries', 'paths',
                  'twins_ok', 'twins_total', 'nontrivial', 'traces_validated'):
            setattr(self, k, getattr(self, k) + getattr(o, k))
        self.solver_time_s += o.solver_time_s
        for k in ('inconclusive', 'violations', 'known', 'errors', 'vacuous', 'samples',
                  'functions_encoded', 'outside', 'assumptions', 'engines', 'cells', 'notes'):
            cur = getattr(self, k)
            for x in getattr(o, k):
                if k in ('functions_encoded', 'assumptions', 'engines', 'outside') and x in cur:
                    continue
                cur.append(x)
        self.bounds.update(o.bounds)
        return self

    def add_sample(self, s, limit=12):
        if len(self.samples) < limit:
            self.samples.append(s)


def load_known():
    p = os.path.join(VERIF, 'known_findings.json')
    if not os.path.exists(p):
        return []
    return json.load(open(p)).get('findings', [])


def open_findings(prop, obligation=None):
    out = []
    for f in load_known():
        if f.get('property') != prop or f.get('status') != 'open':
            continue
        if obligation is not None and f.get('obligation') != obligation:
            continue
        out.append(f)
    return out


def write_replay(prop, name, payload):
    d = os.path.join(OUT, 'replays')
    os.makedirs(d, exist_ok=True)
    h = hashlib.sha1(json.dumps(payload, sort_keys=True, default=str).encode()).hexdigest()[:10]
    p = os.path.join(d, '%s_%s_%s.json' % (prop, name.replace('/', '_')[:40], h))
    with open(p, 'w') as f:
        json.dump(payload, f, indent=1, default=str)
    return p


def write_evidence(res, tier, seed, wall, level='model_checking', technique=''):
    os.makedirs(os.path.join(OUT, 'evidence'), exist_ok=True)
    cov = {
        'evaluations': max(1, int(res.evaluations)),
        'distinct_nontrivial': int(res.nontrivial),
        'rule': ('evaluations = symbolic paths explored by CrossHair + SMT queries discharged by z3; '
                 'an obligation (cell) is one solver-decided claim over ALL values inside its stated bound; '
                 'distinct_nontrivial = discharged obligations whose reachability twin was refuted '
                 '(i.e. the interesting outcome is reachable inside the same bound) plus z3 queries whose '
                 'sanity mutant was sat'),
        'samples': res.samples[:12] or ['(none)'],
        'obligations': res.obligations,
        'discharged': res.discharged,
        'inconclusive': res.inconclusive[:60],
        'inconclusive_count': len(res.inconclusive),
        'queries': res.queries,
        'symbolic_paths': res.paths,
        'solver_time_s': round(res.solver_time_s, 2),
        'functions_encoded': res.functions_encoded,
        'bounds': res.bounds,
        'outside_claim': res.outside,
        'twins_ok': res.twins_ok,
        'twins_total': res.twins_total,
        'traces_validated_against_impl': res.traces_validated,
        'known_findings_reproduced': res.known,
        'engines': res.engines,
        'technique': technique,
        'cells': res.cells[:400],
        'notes': res.notes,
        'exhaustive': False,
        'explanation': ('bounded symbolic checking of the real code: every discharged obligation is a solver '
                        'verdict (unsat / confirmed over all paths) for all values inside the listed bounds; '
                        'nothing is claimed outside them; inconclusive obligations are listed and not counted '
                        'as discharged'),
    }
    ev = {
        'property_id': res.prop,
        'tier': tier,
        'seed': int(seed),
        'level': level,
        'coverage': cov,
        'assumptions': res.assumptions,
        'wall_s': round(wall, 2),
        'violations': len(res.violations),
    }
    p = os.path.join(OUT, 'evidence', '%s.json' % res.prop)
    tmp = p + '.tmp'
    with open(tmp, 'w') as f:
        json.dump(ev, f, indent=1, default=str)
    os.replace(tmp, p)
    return p
