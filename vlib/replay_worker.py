"""Concrete replay of a CrossHair counterexample (no tracing, plain CPython).

usage: python -m vlib.replay_worker <harness module> <fn> <post expr> <raises csv> <call-args-source> [confirm_fn]

Evaluates `fn(*args, **kwargs)` concretely and then the postcondition.
Prints one JSON line: {"violates": bool, "how": str, "confirm": bool|null}
"""
import sys, os, json, importlib, io, traceback


def _cap(*a, **k):
    return a, k


def main():
    modname, fname, post, raises, argsrc = sys.argv[1:6]
    confirm = sys.argv[6] if len(sys.argv) > 6 and sys.argv[6] else None
    real = sys.stdout
    sys.stdout = io.StringIO()
    out = {"violates": False, "how": "", "confirm": None}
    try:
        mod = importlib.import_module(modname)
        ns = dict(vars(mod))
        import typing
        ns.update({k: getattr(typing, k) for k in ("List", "Tuple", "Dict", "Optional")})
        ns["_cap"] = _cap
        a, k = eval("_cap(" + argsrc + ")", ns)
        fn = getattr(mod, fname)
        allowed = tuple(eval(r, ns) for r in raises.split(",") if r.strip())
        try:
            ret = fn(*a, **k)
        except Exception as e:
            if allowed and isinstance(e, allowed):
                out["how"] = "raised allowed %r" % (e,)
            else:
                out["violates"] = True
                out["how"] = "raised %r" % (e,)
                out["tb"] = traceback.format_exc()[-1200:]
        else:
            import inspect
            names = list(inspect.signature(fn).parameters)
            env = dict(ns)
            env.update(dict(zip(names, a)))
            env.update(k)
            for nm, prm in inspect.signature(fn).parameters.items():
                if nm not in env and prm.default is not prm.empty:
                    env[nm] = prm.default
            env["_"] = ret
            env["__return__"] = ret
            ok = bool(eval(post, env))
            out["violates"] = not ok
            out["how"] = "returned %r; post %s" % (ret, "holds" if ok else "FAILS")
        if out["violates"] and confirm:
            try:
                out["confirm"] = bool(getattr(mod, confirm)(*a, **k))
            except Exception as e:
                # the public-API leg blew up as well: the unit leg already reproduced on the real code, so this
                # counts as confirmation when the failure comes out of clastic itself
                tb = traceback.format_exc()
                out["confirm"] = (os.environ.get('VERIF_TRIAGE_REPO', '/repo') + '/clastic/') in tb
                out["confirm_error"] = repr(e)
    except BaseException as e:
        out["how"] = "replay worker error: %r" % (e,)
        out["error"] = traceback.format_exc()[-1500:]
    sys.stdout = real
    print(json.dumps(out))


if __name__ == "__main__":
    main()
