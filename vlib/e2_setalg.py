"""E2 - SetAlg: the real bind-time name arithmetic interpreted from its AST over z3 Boolean name-sets.

The functions of clastic that decide accept/reject at construction time are set arithmetic over *names*.
This module interprets their source (ast.parse(inspect.getsource(f)), re-read on every run) over an abstract
domain in which a set/tuple/list of names is a SymSet (name -> z3 Bool over a finite universe).  Symbolic `if`s
are supported when they guard a `raise` (recorded with its path condition) - anything else raises Unsupported,
which makes the check inconclusive, never a silent pass.
"""
import ast, inspect, itertools, collections, textwrap
import z3

ALPHA = ['a', 'b', 'c', 'd']
REQ_BUILTINS = ['request', '_application', '_route', '_dispatch_state']
BUILTINS = REQ_BUILTINS + ['context', 'next']
U = ALPHA + BUILTINS
_IGN = '_ignored'


class Unsupported(Exception):
    pass


def T():
    return z3.BoolVal(True)


def F():
    return z3.BoolVal(False)


class SymSet(object):
    """name -> z3 Bool.  Names outside U (e.g. '_ignored', '__endpoint_response__') are tracked concretely."""
    def __init__(self, bits=None, extra=()):
        self.b = {n: F() for n in U}
        if bits:
            self.b.update(bits)
        self.extra = set(extra)

    @staticmethod
    def of(x):
        if isinstance(x, SymSet):
            return x
        if isinstance(x, AbstractDict):
            return x.keys_set
        s = SymSet()
        for e in x:
            if isinstance(e, SymSet):
                s = s | e
            elif e in s.b:
                s.b[e] = T()
            else:
                s.extra.add(e)
        return s

    def __or__(self, o):
        o = SymSet.of(o)
        return SymSet({n: z3.Or(self.b[n], o.b[n]) for n in U}, self.extra | o.extra)
    __ror__ = __or__

    def __and__(self, o):
        o = SymSet.of(o)
        return SymSet({n: z3.And(self.b[n], o.b[n]) for n in U}, self.extra & o.extra)

    def __sub__(self, o):
        o = SymSet.of(o)
        return SymSet({n: z3.And(self.b[n], z3.Not(o.b[n])) for n in U}, self.extra - o.extra)

    def nonempty(self):
        if self.extra:
            return T()
        return z3.Or(*self.b.values())

    def contains(self, n):
        if n in self.b:
            return self.b[n]
        return T() if n in self.extra else F()

    def copy(self):
        return SymSet(dict(self.b), set(self.extra))


class AbstractDict(object):
    """a dict of which only the key set matters (resources, converters)."""
    def __init__(self, keys_set):
        self.keys_set = keys_set

    def keys(self):
        return self.keys_set


class GList(object):
    """guarded list: [(guard, value)] - the element is present iff guard."""
    def __init__(self, items=None):
        self.items = list(items or [])

    def append_guarded(self, guard, v):
        self.items.append((guard, v))

    def length_ge(self, k):
        gs = [g for g, _ in self.items]
        if k <= 0:
            return T()
        if len(gs) < k:
            return F()
        return z3.PbGe([(g, 1) for g in gs], k)

    def nonempty(self):
        return z3.Or(*[g for g, _ in self.items]) if self.items else F()


class SymLen(object):
    def __init__(self, gl):
        self.gl = gl


class FirstName(object):
    """get_arg_names(f)[0]"""
    def __init__(self, first_is_next):
        self.first_is_next = first_is_next


class NameTuple(object):
    """result of get_arg_names(f): a SymSet plus knowledge about the first element."""
    def __init__(self, ss, first_is_next):
        self.ss, self.first_is_next = ss, first_is_next


class Sig(object):
    """abstract signature record of one function token.
    present[n], dflt[n] (has a default), kw[n] (keyword-only), po[n] (positional-only)."""
    def __init__(self, name, is_mw, allow_posonly=True):
        self.name, self.is_mw = name, is_mw
        self.present = {n: z3.Bool('%s.has.%s' % (name, n)) for n in U}
        self.dflt = {n: z3.Bool('%s.dflt.%s' % (name, n)) for n in U}
        self.kw = {n: z3.Bool('%s.kw.%s' % (name, n)) for n in U}
        self.po = {n: (z3.Bool('%s.po.%s' % (name, n)) if allow_posonly else F()) for n in U}
        self.first_next = z3.Bool('%s.first_next' % name) if is_mw else F()

    def valid(self):
        cs = []
        for n in U:
            cs.append(z3.Implies(self.dflt[n], self.present[n]))
            cs.append(z3.Implies(self.kw[n], self.present[n]))
            cs.append(z3.Implies(self.po[n], self.present[n]))
            cs.append(z3.Not(z3.And(self.kw[n], self.po[n])))
        # python syntax: once a positional(-only) parameter has a default, every later positional one has too;
        # positional-only come first: a defaulted positional-only forbids required plain positionals
        po_dflt = z3.Or(*[z3.And(self.po[n], self.dflt[n]) for n in U])
        pos_req = z3.Or(*[z3.And(self.present[n], z3.Not(self.kw[n]), z3.Not(self.po[n]), z3.Not(self.dflt[n])) for n in U])
        cs.append(z3.Not(z3.And(po_dflt, pos_req)))
        if self.is_mw:
            cs.append(z3.Not(self.kw['next']))       # a keyword-only `next` is outside the quantifier
            cs.append(z3.Implies(self.first_next, self.present['next']))
            others = [n for n in U if n != 'next']
            is_pos = lambda n: z3.And(self.present[n], z3.Not(self.kw[n]), z3.Not(self.po[n]))
            # next first and defaulted => every other positional is defaulted (python syntax)
            cs.append(z3.Implies(z3.And(self.first_next, self.dflt['next']),
                                 z3.And(*[z3.Implies(is_pos(n), self.dflt[n]) for n in others])))
            # next present but not first => some other positional parameter can precede it
            cs.append(z3.Implies(z3.And(z3.Not(self.first_next), self.present['next']),
                                 z3.Or(*[z3.And(is_pos(n), z3.Implies(self.dflt[n], self.dflt['next'])) for n in others])))
            # `next` first => nothing positional-only except possibly next itself
            for n in U:
                if n != 'next':
                    cs.append(z3.Implies(self.first_next, z3.Not(self.po[n])))
            # a required positional `next` that is not first needs a required positional before it: always constructible
        return z3.And(*cs)

    # views used by the interpreted code
    def arg_names(self):
        return SymSet(dict(self.present))

    def defaults(self):
        return SymSet({n: z3.And(self.present[n], self.dflt[n]) for n in U})

    def positional_args(self):      # FunctionBuilder.args
        return SymSet({n: z3.And(self.present[n], z3.Not(self.kw[n])) for n in U})

    def required(self):
        return SymSet({n: z3.And(self.present[n], z3.Not(self.dflt[n])) for n in U})


class Tok(object):
    """stands for a function object"""
    def __init__(self, name):
        self.name = name

    def __bool__(self):
        return True

    def __call__(self, *a, **k):
        raise Unsupported('calling a function token')

    def __repr__(self):
        return self.name


class MW(object):
    def __init__(self, name, phases, provides_universe=None):
        pu = provides_universe or [n for n in U if n != 'next']
        self.mwname = name
        self.request = Tok(name + '.request') if 'q' in phases else None
        self.endpoint = Tok(name + '.endpoint') if 'e' in phases else None
        self.render = Tok(name + '.render') if 'r' in phases else None
        self.provides = SymSet({n: z3.Bool('%s.pq.%s' % (name, n)) for n in pu}) if 'q' in phases else SymSet()
        self.endpoint_provides = SymSet({n: z3.Bool('%s.pe.%s' % (name, n)) for n in pu}) if 'e' in phases else SymSet()
        self.render_provides = SymSet({n: z3.Bool('%s.pr.%s' % (name, n)) for n in pu}) if 'r' in phases else SymSet()
        self.name = name

    def funcs(self):
        return [(f, ph) for f, ph in ((self.request, 'q'), (self.endpoint, 'e'), (self.render, 'r')) if f]


class _Return(Exception):
    def __init__(self, v):
        self.v = v


class _Continue(Exception):
    pass


class Interp(object):
    def __init__(self, sigs, modules):
        self.sigs = sigs                  # id(token) -> Sig
        self.raises = []                  # (cond, exc_name, where) in program order
        self.pc = T()
        self.guard = None                 # guard of an enclosing symbolic for/if (mutations only)
        self.M = modules                  # dict(sinter=..., core=..., route=..., application=...)
        self.functions_seen = set()

    # ---------------------------------------------------------------- intrinsics
    def sig_of(self, f):
        s = self.sigs.get(id(f))
        if s is None:
            raise Unsupported('signature of %r' % (f,))
        return s

    def call(self, fn, args, kwargs, node):
        S, C = self.M['sinter'], self.M['core']
        if fn is S.get_fb:
            return ('fb', self.sig_of(args[0]))
        if fn in (S.get_arg_names, C.get_arg_names, getattr(self.M['route'], 'get_arg_names', None)):
            sg = self.sig_of(args[0])
            if kwargs.get('only_required') or (len(args) > 1 and args[1]):
                return NameTuple(sg.required(), sg.first_next)
            return NameTuple(sg.arg_names(), sg.first_next)
        if fn in (S.make_chain, S.chain_argspec, C.make_middleware_chain, C.check_middlewares, C.check_middleware):
            return self.run(fn, args, kwargs)
        if fn in (S.compile_chain, S.compile_code):
            return Tok('compiled:' + getattr(fn, '__name__', '?'))
        if fn is C._create_request_inner:
            # summary: the generated process_request declares exactly `all_args` (checked against the real text by E3)
            tok = Tok('process_request')
            sg = Sig('process_request', False, allow_posonly=False)
            allargs = SymSet.of(args[2])
            sg.present = dict(allargs.b)
            sg.dflt = {n: F() for n in U}
            sg.kw = {n: F() for n in U}
            sg.po = {n: F() for n in U}
            self.sigs[id(tok)] = sg
            return tok
        if fn is set or fn is frozenset:
            return SymSet.of(args[0]) if args else SymSet()
        if fn is sorted and args and isinstance(args[0], (SymSet, NameTuple, GList)):
            return args[0]        # order is irrelevant to the guarded loops that consume it
        if fn in (list, tuple):
            if not args:
                return fn()
            if isinstance(args[0], (SymSet, GList, NameTuple)):
                return args[0]
            return fn(args[0])
        if fn is dict:
            if args and isinstance(args[0], AbstractDict):
                return AbstractDict(args[0].keys_set.copy())
            return dict(*args, **kwargs)
        if fn is zip:
            return list(zip(*args))
        if fn is callable:
            return callable(args[0])
        if fn is getattr:
            return getattr(*args)
        if fn is len:
            if isinstance(args[0], GList):
                return SymLen(args[0])
            return len(args[0])
        if fn is collections.defaultdict:
            return collections.defaultdict(GList)
        if getattr(fn, '__name__', '') == 'from_iterable':
            return SymSet.of(args[0])
        if fn is itertools.chain:
            out = SymSet()
            for a in args:
                out = out | (a.ss if isinstance(a, NameTuple) else a)
            return out
        if getattr(fn, '__name__', '') == 'union' and getattr(fn, '__objclass__', None) is set:
            out = SymSet()
            for a in args:
                out = out | a
            return out
        if isinstance(fn, type) and issubclass(fn, BaseException):
            return fn
        slf = getattr(fn, '__self__', None)
        if isinstance(slf, (dict, list, tuple, str)) and not isinstance(slf, collections.defaultdict):
            return fn(*args, **kwargs)       # method of a concrete container
        raise Unsupported('call %r at line %s' % (fn, getattr(node, 'lineno', '?')))

    def run(self, fn, args, kwargs):
        self.functions_seen.add('%s.%s' % (fn.__module__, fn.__qualname__))
        src = textwrap.dedent(inspect.getsource(fn))
        tree = ast.parse(src).body[0]
        params = [a.arg for a in tree.args.args]
        defaults = tree.args.defaults
        env = {}
        for p, d in zip(params[len(params) - len(defaults):], defaults):
            env[p] = ast.literal_eval(d)
        env.update(dict(zip(params, args)))
        env.update(kwargs)
        env['__glob__'] = fn.__globals__
        try:
            self.block(tree.body, env)
        except _Return as r:
            return r.v
        return None

    def block(self, stmts, env):
        for st in stmts:
            self.stmt(st, env)

    def record_raise(self, cond, exc_node, lineno):
        name = '?'
        e = exc_node
        if isinstance(e, ast.Call):
            e = e.func
        if isinstance(e, ast.Name):
            name = e.id
        full = cond if self.guard is None else z3.And(self.guard, cond)
        self.raises.append((z3.And(self.pc, full), name, lineno))
        self.pc = z3.And(self.pc, z3.Not(full))

    def tobool(self, c):
        if isinstance(c, SymSet):
            return c.nonempty()
        if isinstance(c, GList):
            return c.nonempty()
        if isinstance(c, NameTuple):
            return c.ss.nonempty()
        return c

    def stmt(self, st, env):
        if isinstance(st, ast.Expr):
            if isinstance(st.value, ast.Constant):
                return          # docstring
            self.ev(st.value, env)
            return
        if isinstance(st, ast.Assign):
            if self.guard is not None:
                raise Unsupported('assignment under a symbolic guard (line %d)' % st.lineno)
            v = self.ev(st.value, env)
            for t in st.targets:
                self.assign(t, v, env)
            return
        if isinstance(st, ast.AugAssign):
            if self.guard is not None:
                raise Unsupported('augmented assignment under a symbolic guard')
            cur = self.ev(st.target, env)
            v = self.ev(st.value, env)
            if isinstance(st.op, ast.BitOr):
                self.assign(st.target, SymSet.of(cur) | v, env)
                return
            raise Unsupported(ast.dump(st.op))
        if isinstance(st, ast.Return):
            if self.guard is not None:
                raise Unsupported('return under a symbolic guard')
            raise _Return(self.ev(st.value, env) if st.value else None)
        if isinstance(st, ast.Continue):
            raise _Continue()
        if isinstance(st, ast.Pass):
            return
        if isinstance(st, ast.For):
            it = self.ev(st.iter, env)
            if isinstance(it, NameTuple):
                it = it.ss
            if isinstance(it, SymSet):
                # guarded loop over the universe: the body may only mutate guarded containers
                saved = self.guard
                for n in list(U) + sorted(it.extra):
                    g = it.b[n] if n in it.b else T()
                    if z3.is_false(z3.simplify(g)):
                        continue
                    self.guard = g if saved is None else z3.And(saved, g)
                    self.assign(st.target, n, env)
                    self.block(st.body, env)
                self.guard = saved
                return
            for x in it:
                self.assign(st.target, x, env)
                try:
                    self.block(st.body, env)
                except _Continue:
                    continue
            return
        if isinstance(st, ast.If):
            c = self.tobool(self.ev(st.test, env))
            if isinstance(c, z3.BoolRef):
                if all(isinstance(s, ast.Raise) for s in st.body[-1:]) and len(st.body) <= 2 and not st.orelse:
                    # optional message assignment followed by a raise
                    for s in st.body[:-1]:
                        if not isinstance(s, ast.Assign):
                            raise Unsupported('symbolic if body')
                    self.record_raise(c, st.body[-1].exc, st.lineno)
                    return
                raise Unsupported('symbolic if with a non-raise body at line %d' % st.lineno)
            self.block(st.body if c else st.orelse, env)
            return
        if isinstance(st, ast.Raise):
            self.record_raise(T(), st.exc, st.lineno)
            return
        raise Unsupported('statement %s' % type(st).__name__)

    def assign(self, t, v, env):
        if isinstance(t, ast.Name):
            env[t.id] = v
        elif isinstance(t, (ast.Tuple, ast.List)):
            v = list(v)
            if len(v) != len(t.elts):
                raise Unsupported('unpack arity')
            for tt, vv in zip(t.elts, v):
                self.assign(tt, vv, env)
        elif isinstance(t, ast.Attribute):
            setattr(self.ev(t.value, env), t.attr, v)
        else:
            raise Unsupported('assign target %s' % type(t).__name__)

    def ev(self, e, env):
        if isinstance(e, ast.Constant):
            return e.value
        if isinstance(e, ast.Name):
            if e.id in env:
                return env[e.id]
            if e.id in env['__glob__']:
                return env['__glob__'][e.id]
            import builtins
            if hasattr(builtins, e.id):
                return getattr(builtins, e.id)
            raise Unsupported('name %s' % e.id)
        if isinstance(e, (ast.Tuple, ast.List)):
            vals = [self.ev(x, env) for x in e.elts]
            return tuple(vals) if isinstance(e, ast.Tuple) else vals
        if isinstance(e, ast.Dict):
            return dict((self.ev(k, env), self.ev(v, env)) for k, v in zip(e.keys, e.values))
        if isinstance(e, ast.Attribute):
            base = self.ev(e.value, env)
            if isinstance(base, tuple) and len(base) == 2 and base[0] == 'fb':
                sg = base[1]
                if e.attr == 'get_arg_names':
                    return lambda only_required=False: NameTuple(sg.required() if only_required else sg.arg_names(), sg.first_next)
                if e.attr == 'get_defaults_dict':
                    return lambda: AbstractDict(sg.defaults())
                if e.attr == 'args':
                    return sg.positional_args()
                raise Unsupported('FunctionBuilder.%s' % e.attr)
            if isinstance(base, AbstractDict):
                if e.attr == '__contains__':
                    return ('contains', base.keys_set)
                if e.attr == 'keys':
                    return lambda: base.keys_set
                raise Unsupported('dict.%s on abstract dict' % e.attr)
            if isinstance(base, SymSet):
                if e.attr in ('discard', 'remove', 'difference_update'):
                    def rem(o, base=base, single=(e.attr != 'difference_update')):
                        if self.guard is not None:
                            raise Unsupported('set mutation under guard')
                        n = base - ([o] if single else o)
                        base.b, base.extra = n.b, n.extra
                    return rem
                if e.attr == 'copy':
                    return lambda base=base: base.copy()
                if e.attr in ('union', 'intersection', 'difference'):
                    def setop(*os, base=base, op=e.attr):
                        out = base
                        for o in os:
                            out = (out | o) if op == 'union' else ((out & o) if op == 'intersection' else (out - o))
                        return out
                    return setop
                if e.attr in ('update', 'add'):
                    def upd(o, base=base, single=(e.attr == 'add')):
                        if self.guard is not None:
                            raise Unsupported('set mutation under guard')
                        n = base | ([o] if single else o)
                        base.b, base.extra = n.b, n.extra
                    return upd
                raise Unsupported('set.%s' % e.attr)
            if isinstance(base, GList) and e.attr == 'append':
                def app(v, base=base):
                    base.append_guarded(self.guard if self.guard is not None else T(), v)
                return app
            if isinstance(base, collections.defaultdict) and e.attr == 'items':
                return lambda: [(n, base[n]) for n in list(U) + [k for k in list(base) if k not in U]]
            return getattr(base, e.attr)
        if isinstance(e, ast.Subscript):
            base = self.ev(e.value, env)
            idx = self.ev(e.slice, env)
            if isinstance(base, NameTuple):
                if idx == 0:
                    return FirstName(base.first_is_next)
                raise Unsupported('index %r into argument names' % (idx,))
            return base[idx]
        if isinstance(e, ast.Call):
            fn = self.ev(e.func, env)
            args = []
            for a in e.args:
                if isinstance(a, ast.Starred):
                    args.extend(self.ev(a.value, env))
                else:
                    args.append(self.ev(a, env))
            kwargs = {k.arg: self.ev(k.value, env) for k in e.keywords}
            if getattr(fn, '__name__', '') == 'partition' and isinstance(kwargs.get('key'), tuple) and kwargs['key'][0] == 'contains':
                Sx, D = args[0], kwargs['key'][1]
                if isinstance(Sx, NameTuple):
                    Sx = Sx.ss
                return (Sx & D, Sx - D)
            if callable(fn) and getattr(fn, '__name__', '') in ('<lambda>', 'upd', 'app', 'rem', 'setop'):
                return fn(*args, **kwargs)
            return self.call(fn, args, kwargs, e)
        if isinstance(e, ast.BinOp):
            l, r = self.ev(e.left, env), self.ev(e.right, env)
            if isinstance(e.op, ast.Mod):
                return '<msg>'
            if isinstance(l, NameTuple):
                l = l.ss
            if isinstance(r, NameTuple):
                r = r.ss
            if isinstance(l, SymSet) or isinstance(r, SymSet):
                l = SymSet.of(l)
                if isinstance(e.op, ast.BitOr):
                    return l | r
                if isinstance(e.op, ast.BitAnd):
                    return l & r
                if isinstance(e.op, ast.Sub):
                    return l - r
            if isinstance(e.op, ast.Add):
                return l + r
            raise Unsupported('binop %s' % type(e.op).__name__)
        if isinstance(e, ast.BoolOp):
            if isinstance(e.op, ast.Or):
                v = None
                for x in e.values:
                    v = self.ev(x, env)
                    if isinstance(v, (SymSet, z3.BoolRef, GList)):
                        raise Unsupported('symbolic or-expression')
                    if v:
                        return v
                return v
            vals = []
            for x in e.values:          # python's short circuit: operands after a concretely false one are not evaluated
                v = self.tobool(self.ev(x, env))
                vals.append(v)
                if not isinstance(v, z3.BoolRef) and not v:
                    break
            if any(isinstance(v, z3.BoolRef) for v in vals):
                return z3.And(*[v if isinstance(v, z3.BoolRef) else z3.BoolVal(bool(v)) for v in vals])
            v = True
            for x in vals:
                v = x
                if not x:
                    return x
            return v
        if isinstance(e, ast.UnaryOp) and isinstance(e.op, ast.Not):
            v = self.tobool(self.ev(e.operand, env))
            return z3.Not(v) if isinstance(v, z3.BoolRef) else (not v)
        if isinstance(e, ast.Compare) and len(e.ops) == 1:
            l, r = self.ev(e.left, env), self.ev(e.comparators[0], env)
            op = e.ops[0]
            if isinstance(op, (ast.In, ast.NotIn)):
                if isinstance(r, NameTuple):
                    r = r.ss
                if isinstance(r, AbstractDict):
                    r = r.keys_set
                v = r.contains(l) if isinstance(r, SymSet) else (l in r)
                if isinstance(op, ast.NotIn):
                    v = z3.Not(v) if isinstance(v, z3.BoolRef) else (not v)
                return v
            if isinstance(op, (ast.Eq, ast.NotEq)) and isinstance(l, FirstName):
                v = l.first_is_next if r == 'next' else F()
                return z3.Not(v) if isinstance(op, ast.NotEq) else v
            if isinstance(l, SymLen) and isinstance(op, ast.Gt) and isinstance(r, int):
                return l.gl.length_ge(r + 1)
            if isinstance(op, ast.Eq):
                return l == r
            if isinstance(op, ast.NotEq):
                return l != r
            if isinstance(op, ast.Is):
                return l is r
            if isinstance(op, ast.IsNot):
                return l is not r
            raise Unsupported('compare %s' % type(op).__name__)
        if isinstance(e, ast.ListComp) and len(e.generators) == 1:
            g = e.generators[0]
            it = self.ev(g.iter, env)
            sym = False
            out = []
            gout = GList()
            for x in it:
                env2 = dict(env)
                self.assign(g.target, x, env2)
                conds = [self.tobool(self.ev(c, env2)) for c in g.ifs]
                if any(isinstance(c, z3.BoolRef) for c in conds):
                    sym = True
                    gout.append_guarded(z3.And(*[c if isinstance(c, z3.BoolRef) else z3.BoolVal(bool(c)) for c in conds]), None)
                elif all(conds):
                    v = self.ev(e.elt, env2)
                    out.append(v)
                    gout.append_guarded(T(), v)
            return gout if sym else out
        if isinstance(e, ast.IfExp):
            c = self.tobool(self.ev(e.test, env))
            if isinstance(c, z3.BoolRef):
                raise Unsupported('symbolic conditional expression')
            return self.ev(e.body if c else e.orelse, env)
        raise Unsupported('expression %s' % ast.dump(e)[:80])

    # ---------------------------------------------------------------- fragments of larger functions
    def run_fragment(self, fn, want_targets, env, stop_after=None):
        """interpret the statements of `fn` that assign one of want_targets / are the named Expr calls."""
        self.functions_seen.add('%s.%s [fragment]' % (fn.__module__, fn.__qualname__))
        tree = ast.parse(textwrap.dedent(inspect.getsource(fn))).body[0]
        env['__glob__'] = fn.__globals__
        found = set()
        for st in tree.body:
            key = None
            if isinstance(st, ast.Assign) and len(st.targets) == 1:
                t = st.targets[0]
                key = t.id if isinstance(t, ast.Name) else (t.attr if isinstance(t, ast.Attribute) else None)
            elif isinstance(st, ast.Expr) and isinstance(st.value, ast.Call):
                f = st.value.func
                key = f.id if isinstance(f, ast.Name) else getattr(f, 'attr', None)
            elif isinstance(st, ast.If):
                # `if resource_conflicts: raise ...`
                names = [n.id for n in ast.walk(st.test) if isinstance(n, ast.Name)]
                key = 'if:' + ','.join(names)
            if key in want_targets:
                found.add(key)
                self.stmt(st, env)
            elif isinstance(st, ast.If):
                # a wanted assignment/call wrapped into a conditional (`if <reuse condition>: self._execute = ... else: ...`):
                # interpret the whole conditional - its test must evaluate concretely in the first-bind environment
                inner = set()
                for sub in ast.walk(st):
                    if isinstance(sub, ast.Assign) and len(sub.targets) == 1:
                        t = sub.targets[0]
                        inner.add(t.id if isinstance(t, ast.Name) else (t.attr if isinstance(t, ast.Attribute) else None))
                    elif isinstance(sub, ast.Expr) and isinstance(sub.value, ast.Call):
                        f = sub.value.func
                        inner.add(f.id if isinstance(f, ast.Name) else getattr(f, 'attr', None))
                hit = inner & (set(want_targets) - found)
                if hit:
                    found |= hit
                    self.stmt(st, env)
        missing = set(want_targets) - found
        if missing:
            raise Unsupported('fragment statements not found in %s: %s' % (fn.__qualname__, sorted(missing)))


def first_exception(raises):
    """z3 term: index (in program order) of the first raise whose condition holds, -1 if none."""
    idx = z3.IntVal(-1)
    for i in range(len(raises) - 1, -1, -1):
        idx = z3.If(raises[i][0], z3.IntVal(i), idx)
    return idx
