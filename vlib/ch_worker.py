"""One CrossHair condition per OS process.

usage: python -m vlib.ch_worker <generated_module.py> <function> <per_condition_timeout>

Prints exactly one JSON object on the last stdout line:
  {"status": confirmed|refuted|unknown|pre_unsat|error, "message": str,
   "paths": int, "cpu_s": float}
The verdict is CrossHair's (z3 decides every branch and the negated
postcondition on each path); nothing is sampled here.
"""
import sys, json, time, importlib.util, collections, os, io


def main():
    path, fname, timeout = sys.argv[1], sys.argv[2], float(sys.argv[3])
    per_path = float(sys.argv[4]) if len(sys.argv) > 4 else None
    t0 = time.process_time()
    real_stdout = sys.stdout
    sys.stdout = io.StringIO()      # harness code / clastic may print
    out = {"status": "error", "message": "", "paths": 0, "cpu_s": 0.0}
    try:
        from crosshair.core_and_libs import analyze_function, run_checkables, MessageType
        from crosshair.options import AnalysisOptionSet, AnalysisKind
        spec = importlib.util.spec_from_file_location("_ch_cell", path)
        mod = importlib.util.module_from_spec(spec)
        sys.modules["_ch_cell"] = mod
        spec.loader.exec_module(mod)
        fn = getattr(mod, fname)
        stats = collections.Counter()
        kw = dict(per_condition_timeout=timeout, report_all=True,
                  analysis_kind=[AnalysisKind.PEP316], stats=stats,
                  max_uninteresting_iterations=10 ** 9)
        if per_path:
            kw['per_path_timeout'] = per_path
        opts = AnalysisOptionSet(**kw)
        checkables = analyze_function(fn, opts)
        if not checkables:
            out["message"] = "no checkable conditions"
        else:
            msgs = run_checkables(checkables)
            worst = None
            order = {MessageType.CONFIRMED: 0, MessageType.CANNOT_CONFIRM: 1,
                     MessageType.PRE_UNSAT: 2}
            for m in msgs:
                if worst is None or order.get(m.state, 9) > order.get(worst.state, 9):
                    worst = m
            if worst is None:
                out["status"] = "unknown"
                out["message"] = "no message"
            else:
                st = worst.state
                if st == MessageType.CONFIRMED:
                    out["status"] = "confirmed"
                elif st == MessageType.CANNOT_CONFIRM:
                    out["status"] = "unknown"
                elif st == MessageType.PRE_UNSAT:
                    out["status"] = "pre_unsat"
                elif st in (MessageType.POST_FAIL, MessageType.EXEC_ERR, MessageType.POST_ERR):
                    out["status"] = "refuted"
                else:
                    out["status"] = "error"
                out["message"] = worst.message
            out["paths"] = int(stats.get("num_paths", 0))
    except BaseException as e:  # noqa
        import traceback
        out["status"] = "error"
        out["message"] = "worker: %r\n%s" % (e, traceback.format_exc()[-1500:])
    out["cpu_s"] = round(time.process_time() - t0, 2)
    sys.stdout = real_stdout
    print(json.dumps(out))
    sys.stdout.flush()
    os._exit(0)


if __name__ == "__main__":
    main()
