"""Driver for the E2 queries (C01, C04): shapes -> z3 queries -> materialise + replay models -> Result."""
import itertools, random, time, json, traceback
from concurrent.futures import ProcessPoolExecutor
import z3
from .common import Result, NCPU, write_replay, open_findings
from .e2_setalg import Unsupported, U
from . import e2_config as EC


def shapes_upto(total, rnd, cap=None):
    out = []
    for k in range(0, total + 1):
        for ka in range(0, k + 1):
            for pa in itertools.product(EC.PHASES, repeat=ka):
                for pr in itertools.product(EC.PHASES, repeat=k - ka):
                    out.append((pa, pr))
    if cap and len(out) > cap:
        small = [s for s in out if len(s[0]) + len(s[1]) <= 2]
        big = [s for s in out if len(s[0]) + len(s[1]) > 2]
        rnd.shuffle(big)
        out = small + big[:max(0, cap - len(small))]
    return out


def real_verdict(cfgc, seed):
    app, exc, info = EC.build_app(cfgc, seed)
    info = dict((k, v) for k, v in info.items() if k in ('ep_kind', 'rn_kind', 'pattern'))
    info['build_seed'] = seed
    return ('accept' if exc is None else type(exc).__name__), info, (repr(exc)[:200] if exc else None)


def model_verdict(cfg, model):
    for c, name, where in cfg.raises:
        if z3.is_true(model.eval(c, model_completion=True)):
            return name
    return 'accept'


def check_shape(args):
    shape, queries, seed, nvalidate, kf_names = args
    out = dict(shape=shape, queries=[], error=None, validated=0, functions=[], t=0.0)
    try:
        cfg = EC.Config(shape)
        cfg.run_impl()
        cfg.spec()
        out['functions'] = sorted(cfg.interp.functions_seen)
        valid = cfg.valid()
        kfc = []
        if 'posonly' in kf_names:
            for f, sg, kind in cfg.fsigs:
                kfc += [z3.Not(sg.po[n]) for n in U]
        Q = {
            # C01: accept <=> every requirement satisfiable (outside the conflict/misuse/cyclic classes)
            'c01_iff': [valid, z3.Not(cfg.conflict), z3.Not(cfg.first_param), z3.Not(cfg.next_misuse), z3.Not(cfg.cyclic),
                        cfg.accept_impl != cfg.deps_ok],
            'c01_nameerror': [valid, z3.Not(cfg.conflict), z3.Not(cfg.first_param), z3.Not(cfg.next_misuse), z3.Not(cfg.cyclic),
                              z3.Not(cfg.deps_ok), z3.Not(cfg.exc_is(['NameError']))],
            # C04: conflicts / misuse are rejected, with NameError (TypeError allowed for the first-parameter rule)
            'c04_reject': [valid, cfg.c04_reject, cfg.accept_impl],
            'c04_type': [valid, z3.Or(cfg.conflict, cfg.next_misuse, cfg.context_misuse), z3.Not(cfg.first_param),
                         z3.Not(cfg.cyclic), z3.Not(cfg.exc_is(['NameError']))],
            'c04_firstparam_type': [valid, cfg.first_param, z3.Not(cfg.cyclic), z3.Not(cfg.exc_is(['NameError', 'TypeError']))],
            # sanity mutants (must be sat): the oracle is not vacuous
            'twin_c01': [valid, z3.Not(cfg.conflict), z3.Not(cfg.first_param), z3.Not(cfg.next_misuse), z3.Not(cfg.cyclic),
                         z3.Not(cfg.accept_impl)],
            'twin_c04': [valid, cfg.conflict, z3.Not(cfg.first_param)],
        }
        for qn in queries:
            s = z3.Solver()
            s.set('timeout', 120000)
            s.set('random_seed', seed)
            s.add(*Q[qn])
            s.add(*kfc)
            t0 = time.time()
            r = s.check()
            dt = time.time() - t0
            out['t'] += dt
            rec = dict(q=qn, r=str(r), t=round(dt, 3))
            if r == z3.sat and not qn.startswith('twin'):
                m = s.model()
                cc = cfg.concrete(m)
                rec['config'] = cc
                rec['model_verdict'] = model_verdict(cfg, m)
                rec['spec'] = dict((k, z3.is_true(m.eval(getattr(cfg, k), model_completion=True)))
                                   for k in ('deps_ok', 'conflict', 'first_param', 'next_misuse', 'context_misuse', 'cyclic'))
                rv, info, excr = real_verdict(cc, seed)
                rec['real_verdict'], rec['info'], rec['real_exc'] = rv, info, excr
            out['queries'].append(rec)
        # translator validation: random concrete configurations through the interpreter and the real code
        rnd = random.Random(seed * 7919 + hash(str(shape)) % 1000)
        vs = cfg.all_vars()
        for _ in range(nvalidate):
            s = z3.Solver()
            s.add(valid)
            order = list(vs)
            rnd.shuffle(order)
            # bias towards acceptable configurations half of the time
            if rnd.random() < 0.5:
                s.add(z3.Not(cfg.conflict), z3.Not(cfg.first_param), z3.Not(cfg.next_misuse))
            if rnd.random() < 0.5:
                s.add(cfg.deps_ok)
            if s.check() != z3.sat:
                continue
            for v in order[:60]:
                lit = v if rnd.random() < 0.25 else z3.Not(v)
                s.push()
                s.add(lit)
                if s.check() != z3.sat:
                    s.pop()
            s.check()
            m = s.model()
            cc = cfg.concrete(m)
            mv = model_verdict(cfg, m)
            rv, info, excr = real_verdict(cc, rnd.randrange(1000))
            out['validated'] += 1
            if mv != rv and not (rv == 'IndexError' and mv == 'TypeError'):
                # who is wrong?  When the REAL verdict also contradicts the statement (declarative side) this is a violation
                # found by the validation leg (e.g. signature extraction or merging, which the interpreter summarises);
                # when the real code agrees with the statement the translator is wrong (harness error)
                sp = dict((k, z3.is_true(m.eval(getattr(cfg, k), model_completion=True)))
                          for k in ('deps_ok', 'conflict', 'first_param', 'next_misuse', 'context_misuse', 'cyclic'))
                misuse = sp['conflict'] or sp['first_param'] or sp['next_misuse'] or sp['context_misuse']
                qn = None
                if not sp['cyclic']:
                    if not misuse and sp['deps_ok'] != (rv == 'accept'):
                        qn = 'c01_iff'
                    elif misuse and rv == 'accept':
                        qn = 'c04_reject'
                if qn is not None and qn in queries:
                    out['queries'].append(dict(q=qn, r='sat', t=0.0, config=cc, model_verdict=mv, spec=sp, real_verdict=rv, info=info, real_exc=excr, validation_leg=True))
                    continue
                if qn is not None:
                    continue          # belongs to the other property's check
                out['error'] = 'translator validation: interpreter says %s, real code says %s (%s) for %s' % (mv, rv, excr, json.dumps(cc)[:1500])
                break
    except Unsupported as e:
        out['unsupported'] = str(e)
    except Exception as e:     # noqa
        out['error'] = '%r\n%s' % (e, traceback.format_exc()[-1200:])
    return out


def expected_from_spec(qn, rec):
    """what the statement demands for the model's configuration: ('accept'|'reject', allowed exception names or None)"""
    sp = rec['spec']
    if qn == 'c01_iff':
        return ('accept', None) if sp['deps_ok'] else ('reject', None)
    if qn == 'c01_nameerror':
        return ('reject', ['NameError'])
    if qn == 'c04_reject':
        return ('reject', None)
    if qn == 'c04_type':
        return ('reject', ['NameError'])
    return ('reject', ['NameError', 'TypeError', 'IndexError'])


def run_e2(prop, ctx, queries, twin):
    T = ctx.thorough
    rnd = random.Random(ctx.seed)
    res = Result(prop)
    res.engines.append('E2 SetAlg: AST of the real bind-time functions interpreted over z3 Booleans (z3 %s)' % z3.get_version_string())
    shapes = shapes_upto(3 if T else 2, rnd, cap=2500 if T else None)
    if T:
        four = []
        for _ in range(400):
            k = 4
            ka = rnd.randrange(0, 5)
            four.append((tuple(rnd.choice(EC.PHASES) for _ in range(ka)), tuple(rnd.choice(EC.PHASES) for _ in range(k - ka))))
        shapes += four
    kf_names = [f.get('id') for f in open_findings(prop)]
    kf = ['posonly'] if any('posonly' in (k or '') for k in kf_names) else []
    nval = 3 if T else 2
    jobs = [(s, queries + [twin], ctx.seed, nval if (i % 3 == 0) else 0, kf) for i, s in enumerate(shapes)]
    t0 = time.time()
    with ProcessPoolExecutor(max_workers=NCPU) as ex:
        outs = list(ex.map(check_shape, jobs, chunksize=4))
    funcs = set()
    twin_sat = 0
    for o in outs:
        funcs.update(o.get('functions', []))
        res.traces_validated += o.get('validated', 0)
        if o.get('unsupported'):
            res.vacuous.append(dict(name='E2 %r' % (o['shape'],), reason='unsupported construct in the real source: ' + o['unsupported']))
            continue
        if o.get('error'):
            res.errors.append(dict(name='E2 %r' % (o['shape'],), reason=o['error']))
            continue
        res.solver_time_s += o['t']
        for rec in o['queries']:
            res.queries += 1
            res.evaluations += 1
            qn = rec['q']
            if qn.startswith('twin'):
                if rec['r'] == 'sat':
                    twin_sat += 1
                continue
            res.obligations += 1
            if rec['r'] == 'unsat':
                res.discharged += 1
                res.nontrivial += 1
                if len(res.samples) < 8 and (len(o['shape'][0]) + len(o['shape'][1]) >= 2 or not res.samples):
                    res.add_sample(dict(shape=dict(application_level=o['shape'][0], route_level=o['shape'][1]), query=qn, verdict='unsat: no assignment of signatures/provides/resources/URL names of this shape violates the query', seconds=rec['t']))
            elif rec['r'] == 'sat':
                want, types_ok = expected_from_spec(qn, rec)
                rv = rec['real_verdict']
                real_ok = (rv == 'accept') if want == 'accept' else (rv != 'accept' and (types_ok is None or rv in types_ok))
                if rec['spec'].get('cyclic') and qn in ('c01_iff', 'c01_nameerror', 'c04_type'):
                    real_ok = True
                if not real_ok:
                    pl = dict(property=prop, engine='E2', query=qn, shape=o['shape'], config=rec['config'], spec=rec['spec'],
                              expected=[want, types_ok], real_verdict=rv, real_exc=rec['real_exc'], info=rec['info'])
                    p = write_replay(prop, qn, pl)
                    if len(res.violations) < 20:
                        res.violations.append(dict(name=qn, args=json.dumps(rec['config'])[:400],
                                                   how='statement demands %s%s; real Application(...) -> %s %s' % (want, types_ok or '', rv, rec['real_exc'] or ''), replay=p))
                else:
                    res.errors.append(dict(name='E2 %s %r' % (qn, o['shape']),
                                           reason='model does not replay: interpreter %s, real %s, config %s' % (rec['model_verdict'], rv, json.dumps(rec['config'])[:600])))
            else:
                res.inconclusive.append(dict(name='%s %r' % (qn, o['shape']), reason='z3 ' + rec['r']))
    if kf:
        # witness of the recorded finding, re-established on the current tree
        from clastic import Application
        from werkzeug.wrappers import Response
        try:
            app = Application([('/<a>', eval('lambda a, /: Response(str(a))'))])
            r = app.get_local_client().get('/x')
            if r.status_code == 500:
                res.known.append('property=%s %s' % (prop, [f for f in open_findings(prop) if 'posonly' in (f.get('id') or '')][0]['what'][:300]))
        except NameError:
            pass        # rejected at construction: the finding is gone
    res.twins_total += 1
    if twin_sat > 0:
        res.twins_ok += 1
    else:
        res.vacuous.append(dict(name='E2', reason='sanity query %s never satisfiable' % twin))
    res.functions_encoded += sorted(funcs) + ['summary: BoundRoute._resolve_required_args/resolve_deps = RuntimeError iff the provides graph has a cycle (validated on sampled configurations)',
                                              'summary: _create_request_inner(...) yields a function requiring exactly all_args (checked against the generated text by E3/C02)']
    res.bounds.update(dict(shapes='%d shapes: all stacks of <= %d middlewares (application-/route-level split, any subset of request/endpoint/render each)%s' % (
        len(shapes), 3 if T else 2, ' + 400 sampled stacks of 4' if T else ''),
        names='universe %r; every function: per name absent/required/defaulted x positional/keyword-only/positional-only (endpoint, render); provides/endpoint_provides/render_provides, URL bindings, application and route resources: any subset of the universe' % (U,),
        per_query='one z3 query decides all assignments of a shape (several hundred Booleans)'))
    res.outside += ['*args/**kwargs, functools.partial, classes as endpoints (outside the quantifier)', 'names beyond the universe (the arithmetic is name-uniform: an argument, not a solver result)',
                    'get_fb extraction from real callables is validated on materialised samples (8 callable kinds: function, lambda, bound method, callable object, staticmethod, classmethod, clastic_decorator-wrapped, functools.wraps wrapper of a function another application has already bound), not symbolic',
                    'merge_middlewares uniqueness interplay (C03/C10): stacks here have pairwise distinct middleware types', 'keyword-only `next`']
    res.assumptions += ['z3 Boolean/pseudo-Boolean reasoning', 'AST interpreter semantics for the subset used (any other construct aborts the check as unsupported)']
    return res
