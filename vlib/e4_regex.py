"""E4 - RegexSMT: compiled Python regexes (re._parser tree) -> z3 regular expressions over a finite alphabet."""
import re
import re._parser as sp
import re._constants as sc
import z3

SIGMA = "/ab10.-+ eé"


def union(rs):
    rs = list(rs)
    if not rs:
        return z3.Empty(z3.ReSort(z3.StringSort()))
    if len(rs) == 1:
        return rs[0]
    return z3.Union(*rs)


def concat(parts):
    parts = list(parts)
    if not parts:
        return z3.Re('')
    if len(parts) == 1:
        return parts[0]
    return z3.Concat(*parts)


def chars(cs):
    return union(z3.Re(c) for c in cs)


_CAT = {sc.CATEGORY_DIGIT: r'\d', sc.CATEGORY_WORD: r'\w', sc.CATEGORY_SPACE: r'\s',
        sc.CATEGORY_NOT_DIGIT: r'\D', sc.CATEGORY_NOT_WORD: r'\W', sc.CATEGORY_NOT_SPACE: r'\S'}


class Unsupported(Exception):
    pass


def cls_chars(items, sigma=SIGMA):
    """members of a character class, evaluated per sigma character with Python's own re (exact on sigma)."""
    neg = any(op is sc.NEGATE for op, _ in items)
    out = []
    for ch in sigma:
        m = False
        for op, av in items:
            if op is sc.LITERAL:
                m |= (ord(ch) == av)
            elif op is sc.RANGE:
                m |= (av[0] <= ord(ch) <= av[1])
            elif op is sc.CATEGORY:
                m |= bool(re.fullmatch(_CAT[av], ch))
            elif op is sc.NEGATE:
                pass
            else:
                raise Unsupported('class item %r' % (op,))
        if m != neg:
            out.append(ch)
    return out


def tr(seq, sigma=SIGMA):
    """translate a parsed pattern (re._parser.SubPattern) into a z3 Re over sigma.  Anchors: a leading ^ and a
    trailing $ are required by the caller's use (whole-string membership); '\\n' is not in sigma so $ == end."""
    parts = []
    for op, av in seq:
        if op is sc.LITERAL:
            if chr(av) not in sigma:
                raise Unsupported('literal %r outside alphabet' % chr(av))
            parts.append(z3.Re(chr(av)))
        elif op is sc.NOT_LITERAL:
            parts.append(chars(c for c in sigma if ord(c) != av))
        elif op is sc.IN:
            parts.append(chars(cls_chars(av, sigma)))
        elif op is sc.ANY:
            parts.append(chars(c for c in sigma if c != '\n'))
        elif op is sc.SUBPATTERN:
            parts.append(tr(av[3], sigma))
        elif op is sc.BRANCH:
            parts.append(union(tr(b, sigma) for b in av[1]))
        elif op in (sc.MAX_REPEAT, sc.MIN_REPEAT):
            lo, hi, sub = av
            r = tr(sub, sigma)
            if hi is sc.MAXREPEAT:
                parts.append(z3.Star(r) if lo == 0 else z3.Plus(r) if lo == 1 else z3.Concat(z3.Loop(r, lo, lo), z3.Star(r)))
            else:
                parts.append(z3.Option(r) if (lo, hi) == (0, 1) else z3.Loop(r, lo, hi))
        elif op is sc.AT:
            if av is sc.AT_BEGINNING or av is sc.AT_END:
                continue
            raise Unsupported('anchor %r' % (av,))
        else:
            raise Unsupported('regex op %r' % (op,))
    return concat(parts)


def anchors_ok(pattern):
    """the translation treats the regex as a whole-string matcher: require ^...$ exactly once each, at the ends."""
    seq = list(sp.parse(pattern))
    if not seq or seq[0] != (sc.AT, sc.AT_BEGINNING) or seq[-1] != (sc.AT, sc.AT_END):
        return False
    inner = seq[1:-1]

    def has_at(s):
        for op, av in s:
            if op is sc.AT:
                return True
            if op is sc.SUBPATTERN and has_at(av[3]):
                return True
            if op is sc.BRANCH and any(has_at(b) for b in av[1]):
                return True
            if op in (sc.MAX_REPEAT, sc.MIN_REPEAT) and has_at(av[2]):
                return True
        return False
    return not has_at(inner)


def translate(pattern, sigma=SIGMA):
    if not anchors_ok(pattern):
        raise Unsupported('pattern is not of the form ^...$: %r' % pattern)
    return tr(sp.parse(pattern), sigma)


def member(s, r):
    """concrete membership in a z3 regex (used for translator validation)."""
    v = z3.simplify(z3.InRe(z3.StringVal(s), r))
    if z3.is_true(v):
        return True
    if z3.is_false(v):
        return False
    sol = z3.Solver()
    sol.add(v)
    return sol.check() == z3.sat


def find_difference(r_a, r_b, maxlen, sigma=SIGMA, timeout_ms=60000):
    """a string in L(r_a) \\ L(r_b) with length <= maxlen over sigma, or None (unsat), or 'unknown'."""
    s = z3.String('p')
    sol = z3.Solver()
    sol.set('timeout', timeout_ms)
    sol.add(z3.Length(s) <= maxlen)
    sol.add(z3.InRe(s, z3.Star(chars(sigma))))
    sol.add(z3.InRe(s, r_a))
    sol.add(z3.Not(z3.InRe(s, r_b)))
    r = sol.check()
    if r == z3.unsat:
        return None
    if r == z3.sat:
        return sol.model()[s].as_string().encode('latin-1', 'backslashreplace').decode('unicode_escape') \
            if False else _zstr(sol.model()[s])
    return 'unknown'


def _zstr(v):
    """python str of a z3 string value (z3 escapes non-ASCII as \\u{..})."""
    raw = v.as_string()
    return re.sub(r'\\u\{([0-9a-fA-F]+)\}', lambda m: chr(int(m.group(1), 16)), raw)
