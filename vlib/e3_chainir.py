"""E3 - ChainIR: the code clastic generates for a bound route (linecache text of route._execute, of the
endpoint/render chains and of process_request) is parsed and evaluated symbolically in z3.

Request-time values are constants of an uninterpreted sort V; every user function has a symbolic behaviour
(pass-through / raise before next / raise after next / early Response / swallow inner exception); control flow
is merged with ite, so all behaviour vectors of a cell are one query.  The oracle is built from the
configuration (middleware list, phases, declared provides), never from the generated text.
"""
import ast, inspect, linecache
import z3


class Unsupported(Exception):
    pass


# ---------------------------------------------------------------------------------------------- IR extraction
def gen_source(fn):
    code = getattr(fn, '__code__', None)
    if code is None or not code.co_filename.startswith('<sinter generated'):
        raise Unsupported('not a sinter-generated function: %r' % (fn,))
    ent = linecache.cache.get(code.co_filename)
    if not ent:
        raise Unsupported('no linecache entry for %s' % code.co_filename)
    return ''.join(ent[2])


def _plain_params(fd):
    a = fd.args
    if a.vararg or a.kwarg or a.kwonlyargs or a.defaults or getattr(a, 'posonlyargs', None):
        raise Unsupported('generated def with non-plain parameters')
    return [x.arg for x in a.args]


def _call_kwargs(call):
    if call.args:
        raise Unsupported('positional arguments in generated call')
    out = []
    for k in call.keywords:
        if k.arg is None or not isinstance(k.value, ast.Name):
            raise Unsupported('generated keyword argument is not name=name')
        out.append((k.arg, k.value.id))
    return out


def parse_chain(src, inner_name='next'):
    """nested `def next(...)` chain -> list of levels {params, idx, kwargs}"""
    tree = ast.parse(src)
    if len(tree.body) != 1 or not isinstance(tree.body[0], ast.FunctionDef):
        raise Unsupported('generated chain is not a single def')
    cur = tree.body[0]
    levels = []
    while True:
        if cur.name != inner_name:
            raise Unsupported('chain def named %r' % cur.name)
        params = _plain_params(cur)
        inner, ret = None, None
        for st in cur.body:
            if isinstance(st, ast.FunctionDef):
                if inner is not None or ret is not None:
                    raise Unsupported('two inner defs / def after return')
                inner = st
            elif isinstance(st, ast.Assign):
                if not (len(st.targets) == 1 and isinstance(st.targets[0], ast.Name) and st.targets[0].id == '__traceback_hide__'):
                    raise Unsupported('assignment in generated chain')
            elif isinstance(st, ast.Return):
                ret = st
            else:
                raise Unsupported('statement %s in generated chain' % type(st).__name__)
        if ret is None or not isinstance(ret.value, ast.Call):
            raise Unsupported('chain level without `return funcs[i](...)`')
        f = ret.value.func
        if not (isinstance(f, ast.Subscript) and isinstance(f.value, ast.Name) and f.value.id == 'funcs'
                and isinstance(f.slice, ast.Constant) and isinstance(f.slice.value, int)):
            raise Unsupported('chain level does not call funcs[<int>]')
        levels.append(dict(params=params, idx=f.slice.value, kwargs=_call_kwargs(ret.value)))
        if inner is None:
            break
        cur = inner
    return levels


def parse_process_request(src):
    tree = ast.parse(src)
    fds = [s for s in tree.body if isinstance(s, ast.FunctionDef)]
    if len(fds) != 1 or fds[0].name != 'process_request':
        raise Unsupported('process_request template changed shape')
    return dict(params=_plain_params(fds[0]), body=fds[0].body)


class RouteIR(object):
    """everything one bound route will run, read from the function objects themselves."""
    def __init__(self, route):
        ex = route._execute
        self.req_src = gen_source(ex)
        self.req_levels = parse_chain(self.req_src)
        self.req_funcs = list(ex.__globals__['funcs'])
        pr = self.req_funcs[-1]
        self.pr_src = gen_source(pr)
        self.pr = parse_process_request(self.pr_src)
        g = pr.__globals__
        self.ep_chain, self.rn_chain = g['endpoint'], g['render']
        self.ep_src, self.rn_src = gen_source(self.ep_chain), gen_source(self.rn_chain)
        self.ep_levels, self.rn_levels = parse_chain(self.ep_src), parse_chain(self.rn_src)
        self.ep_funcs = list(self.ep_chain.__globals__['funcs'])
        self.rn_funcs = list(self.rn_chain.__globals__['funcs'])
        self.pr_globals = g


# ---------------------------------------------------------------------------------------------- z3 domain
class Dom(object):
    def __init__(self):
        self.V = z3.DeclareSort('V')
        O = z3.Datatype('Outcome')
        O.declare('Ret', ('val', self.V), ('isresp', z3.BoolSort()), ('isfull', z3.BoolSort()))
        O.declare('Exc', ('exc', self.V))
        self.O = O.create()
        self.consts = {}
        self.events = {}
        self.ISeq = z3.SeqSort(z3.IntSort())

    def ret(self, v, isresp, isfull=None):
        isresp = z3.BoolVal(isresp) if isinstance(isresp, bool) else isresp
        if isfull is None:
            isfull = isresp
        isfull = z3.BoolVal(isfull) if isinstance(isfull, bool) else isfull
        return self.O.Ret(v, isresp, isfull)

    def const(self, name):
        if name not in self.consts:
            self.consts[name] = z3.Const(name, self.V)
        return self.consts[name]

    def ev(self, name):
        if name not in self.events:
            self.events[name] = len(self.events) + 1
        return z3.Unit(z3.IntVal(self.events[name]))

    def empty(self):
        return z3.Empty(self.ISeq)

    def cat(self, *xs):
        xs = [x for x in xs if x is not None]
        if not xs:
            return self.empty()
        if len(xs) == 1:
            return xs[0]
        return z3.Concat(*xs)

    def distinct(self):
        vs = list(self.consts.values())
        return z3.Distinct(*vs) if len(vs) > 1 else z3.BoolVal(True)


class FuncInfo(object):
    """a user function as the evaluator needs it: identity (name), behaviour variable, what it passes to next(),
    and which keyword sets the real callable accepts (from inspect.signature of the REAL object)."""
    def __init__(self, name, kind, real, provides=(), params=None):
        self.name, self.kind, self.real, self.provides = name, kind, real, list(provides)
        self.beh = z3.Int('beh.' + name)
        self.required, self.accepts, self.declared = set(), set(), []
        self.varkw = False
        if params is not None:
            # the generator's own record of the signature it wrote (wrappers such as clastic_decorator hide it)
            for n, dflt, k in params:
                self.declared.append(n)
                if k != 'po':
                    self.accepts.add(n)
                if not dflt:
                    self.required.add(n)
            return
        sig = inspect.signature(real)
        for p in sig.parameters.values():
            if p.kind is p.VAR_KEYWORD:
                self.varkw = True
                continue
            if p.kind is p.VAR_POSITIONAL:
                continue
            self.declared.append(p.name)
            if p.kind is not p.POSITIONAL_ONLY:
                self.accepts.add(p.name)
            if p.default is p.empty:
                self.required.add(p.name)

    def beh_domain(self):
        if self.kind == 'mw':
            return z3.And(self.beh >= 0, self.beh <= 5)
        if self.kind == 'ep':
            return z3.Or(self.beh == 0, self.beh == 1, self.beh == 3, self.beh == 5)
        return z3.Or(self.beh == 0, self.beh == 1, self.beh == 5)

    def call_ok(self, names):
        names = set(names)
        return self.required <= names and (self.varkw or names <= self.accepts)


class Evaluator(object):
    """symbolic evaluation of the parsed generated code."""
    def __init__(self, dom, ir, finfo_of):
        self.d, self.ir, self.finfo_of = dom, ir, finfo_of
        self.calls = []          # (function name, {param: V term}, call_ok) for C02/C01b
        self.level_order_ok = True
        self.ctx_term = None

    def eval_chain(self, levels, funcs, env, innermost):
        """returns (Outcome term, trace term).  `innermost(env_kwargs)` evaluates the last function of the chain."""
        d = self.d

        def level(j, env):
            lv = levels[j]
            if lv['idx'] != j:
                self.level_order_ok = False
            f = funcs[lv['idx']] if lv['idx'] < len(funcs) else None
            if f is None:
                raise Unsupported('funcs index out of range')
            # kwargs of the call: name -> value in the lexical environment
            kw = {}
            unbound = []
            for k, v in lv['kwargs']:
                if v == 'next' and j + 1 < len(levels):
                    kw[k] = 'NEXT'
                elif v in env:
                    kw[k] = env[v]
                else:
                    unbound.append(v)
            if unbound:
                # the generated code reads a name that is not in scope: a NameError at request time
                self.calls.append(('<generated>', {}, False))
                return d.O.Exc(d.const('NAMEERROR')), d.ev('typeerror:unbound-%s' % unbound[0])
            if j == len(levels) - 1:
                return innermost(f, kw)
            fi = self.finfo_of(f)
            ok = fi.call_ok(kw.keys())
            self.calls.append((fi.name, dict((k, v) for k, v in kw.items()), ok))
            if not ok:
                return d.O.Exc(d.const('TYPEERROR')), d.ev('typeerror:' + fi.name)
            # inner: next(**provides) binds the next level's parameters
            nxt = levels[j + 1]
            env2 = dict(env)
            passed = dict((n, d.const('PROV:%s:%s' % (fi.name, n))) for n in fi.provides)
            # next() must accept exactly what the middleware provides, positionally in the DECLARED order
            # (a middleware may call next(v1, v2) positionally)
            inner_ok = list(nxt['params']) == list(fi.provides)
            for p in nxt['params']:
                if p in passed:
                    env2[p] = passed[p]
            if not inner_ok:
                inner_out, inner_tr = d.O.Exc(d.const('TYPEERROR')), d.ev('typeerror:next-of-' + fi.name)
            else:
                inner_out, inner_tr = level(j + 1, env2)
            return self.apply_behaviour(fi, inner_out, inner_tr)
        return level(0, env)

    def apply_behaviour(self, fi, inner_out, inner_tr):
        d, b = self.d, fi.beh
        E = d.O.Exc(d.const('EXC:' + fi.name))
        Rr = d.ret(d.const('RESP:' + fi.name), True)
        Rh = d.ret(d.const('HTTPEXC:' + fi.name), True, False)     # a returned HTTPException: a BaseResponse, not a full Response
        inner_exc = d.O.is_Exc(inner_out)
        out = z3.If(b == 1, E, z3.If(b == 3, Rr, z3.If(b == 5, Rh,
                    z3.If(inner_exc, z3.If(b == 4, Rr, inner_out), z3.If(b == 2, E, inner_out)))))
        calls_next = z3.And(b != 1, b != 3, b != 5)
        raised = d.O.is_Exc(out)
        tr = d.cat(d.ev('enter:' + fi.name), z3.If(calls_next, inner_tr, d.empty()),
                   z3.If(raised, d.ev('raise:' + fi.name), d.ev('leave:' + fi.name)))
        return out, tr

    def leaf(self, fi, kw, ctx_val=None):
        """endpoint / render function itself"""
        d = self.d
        ok = fi.call_ok(kw.keys())
        self.calls.append((fi.name, dict(kw), ok))
        if not ok:
            return d.O.Exc(d.const('TYPEERROR')), d.ev('typeerror:' + fi.name)
        b = fi.beh
        E = d.O.Exc(d.const('EXC:' + fi.name))
        if fi.kind == 'ep':
            out = z3.If(b == 1, E, z3.If(b == 3, d.ret(d.const('RESP:ep'), True),
                                         z3.If(b == 5, d.ret(d.const('HTTPEXC:ep'), True, False), d.ret(d.const('CTX'), False))))
        else:
            out = z3.If(b == 1, E, z3.If(b == 5, d.ret(d.const('HTTPEXC:rn'), True, False), d.ret(d.const('RESP:rn'), True)))
        tr = d.cat(d.ev('enter:' + fi.name), z3.If(d.O.is_Exc(out), d.ev('raise:' + fi.name), d.ev('leave:' + fi.name)))
        return out, tr

    # ---- process_request (generated from a template): a tiny statement interpreter
    def eval_process_request(self, env):
        d, ir = self.d, self.ir
        alive = z3.BoolVal(True)
        result = None            # list of (cond, outcome)
        results = []
        trace = d.empty()
        venv = dict((k, (v, z3.BoolVal(False), z3.BoolVal(False))) for k, v in env.items())   # name -> (V term, isresp, isfull)

        def call(fname, kwnames):
            kw = {}
            for k, v in kwnames:
                if v not in venv:
                    raise Unsupported('process_request reads unbound name %r' % v)
                kw[k] = venv[v][0]
            penv = dict((k, venv[v][0]) for k, v in kwnames)
            if fname == 'endpoint':
                levels, funcs = ir.ep_levels, ir.ep_funcs
            elif fname == 'render':
                levels, funcs = ir.rn_levels, ir.rn_funcs
            else:
                raise Unsupported('process_request calls %r' % fname)
            if set(levels[0]['params']) != set(kw):
                return d.O.Exc(d.const('TYPEERROR')), d.ev('typeerror:%s-chain' % fname)
            return self.eval_chain(levels, funcs, penv, lambda f, k: self.leaf(self.finfo_of(f), k))

        def run(stmts, alive, trace):
            nonlocal venv
            for st in stmts:
                if isinstance(st, ast.Assign) and len(st.targets) == 1 and isinstance(st.targets[0], ast.Name):
                    tgt = st.targets[0].id
                    if tgt == '__traceback_hide__':
                        continue
                    val = st.value
                    if isinstance(val, ast.Name):
                        if val.id not in venv:
                            raise Unsupported('process_request reads unbound %r' % val.id)
                        new = venv[val.id]
                    elif isinstance(val, ast.Call) and isinstance(val.func, ast.Name):
                        out, tr = call(val.func.id, _call_kwargs(val))
                        trace = d.cat(trace, z3.If(alive, tr, d.empty()))
                        results.append((z3.And(alive, d.O.is_Exc(out)), out))
                        alive = z3.And(alive, d.O.is_Ret(out))
                        new = (d.O.val(out), d.O.isresp(out), d.O.isfull(out))
                        if val.func.id == 'endpoint':
                            self.ctx_term = new[0]
                    else:
                        raise Unsupported('process_request assignment value')
                    old = venv.get(tgt)
                    venv[tgt] = new if old is None else tuple(z3.If(alive, new[i], old[i]) for i in range(3))
                elif isinstance(st, ast.If):
                    t = st.test
                    neg = False
                    if isinstance(t, ast.UnaryOp) and isinstance(t.op, ast.Not):
                        neg, t = True, t.operand
                    if not (isinstance(t, ast.Call) and isinstance(t.func, ast.Name) and t.func.id == 'isinstance'
                            and len(t.args) == 2 and isinstance(t.args[0], ast.Name) and isinstance(t.args[1], ast.Name)):
                        raise Unsupported('process_request condition')
                    # which values does the tested class cover?  Looked up in the generated function's own globals.
                    cls = ir.pr_globals.get(t.args[1].id)
                    from werkzeug.wrappers import Response as _FullResp
                    from clastic.errors import HTTPException as _HE
                    if not isinstance(cls, type):
                        raise Unsupported('isinstance against %r' % (cls,))
                    x = venv[t.args[0].id]
                    covers_full, covers_http = issubclass(_FullResp, cls), issubclass(_HE, cls)
                    c = z3.Or(z3.And(x[2], z3.BoolVal(covers_full)), z3.And(x[1], z3.Not(x[2]), z3.BoolVal(covers_http)))
                    if neg:
                        c = z3.Not(c)
                    before = dict(venv)
                    a1, tr1 = run(st.body, z3.And(alive, c), trace)
                    env1 = venv
                    venv = dict(before)
                    a2, tr2 = run(st.orelse, z3.And(alive, z3.Not(c)), tr1)
                    env2 = venv
                    venv = {}
                    for k in set(env1) | set(env2):
                        x1, x2 = env1.get(k), env2.get(k)
                        if x1 is None or x2 is None:
                            venv[k] = x1 or x2
                        else:
                            venv[k] = tuple(z3.If(c, x1[i], x2[i]) for i in range(3))
                    alive = z3.Or(a1, a2)
                    trace = tr2
                elif isinstance(st, ast.Return):
                    if not isinstance(st.value, ast.Name) or st.value.id not in venv:
                        raise Unsupported('process_request return')
                    v = venv[st.value.id]
                    results.append((alive, d.O.Ret(v[0], v[1], v[2])))
                    alive = z3.BoolVal(False)
                else:
                    raise Unsupported('process_request statement %s' % type(st).__name__)
            return alive, trace
        alive, trace = run(ir.pr['body'], alive, trace)
        out = d.ret(d.const('NONE'), False)      # falling off the end returns None
        for c, o in reversed(results):
            out = z3.If(c, o, out)
        return out, trace

    def eval_route(self, base_env):
        """base_env: names the outermost generated function receives (from inject): name -> V term"""
        ir = self.ir
        top = ir.req_levels[0]['params']
        env = dict((p, base_env[p]) for p in top if p in base_env)
        missing = [p for p in top if p not in base_env]
        self.top_missing = missing

        def innermost(f, kw):
            # the last function of the request chain is the generated process_request
            if f is not ir.req_funcs[-1]:
                raise Unsupported('innermost request function is not process_request')
            if set(ir.pr['params']) != set(kw):
                return self.d.O.Exc(self.d.const('TYPEERROR')), self.d.ev('typeerror:process_request')
            penv = dict((p, kw[p]) for p in ir.pr['params'])
            return self.eval_process_request(penv)
        return self.eval_chain(ir.req_levels, ir.req_funcs, env, innermost)


# ---------------------------------------------------------------------------------------------- oracle
def onion(dom, layers, core):
    """independent definition of the nesting: layers = [FuncInfo]; core() -> (Outcome, trace)."""
    d = dom
    if not layers:
        return core()
    f = layers[0]
    inner_out, inner_tr = onion(dom, layers[1:], core)
    b = f.beh
    E = d.O.Exc(d.const('EXC:' + f.name))
    Rr = d.ret(d.const('RESP:' + f.name), True)
    Rh = d.ret(d.const('HTTPEXC:' + f.name), True, False)
    stops = z3.Or(b == 1, b == 3, b == 5)
    out = z3.If(b == 1, E, z3.If(b == 3, Rr, z3.If(b == 5, Rh, z3.If(d.O.is_Exc(inner_out), z3.If(b == 4, Rr, inner_out),
                                                                     z3.If(b == 2, E, inner_out)))))
    tr = d.cat(d.ev('enter:' + f.name), z3.If(stops, d.empty(), inner_tr),
               z3.If(d.O.is_Exc(out), d.ev('raise:' + f.name), d.ev('leave:' + f.name)))
    return out, tr


def spec_route(dom, req_layers, ep_layers, ep, rn_layers, rn):
    d = dom

    def ep_core():
        b = ep.beh
        out = z3.If(b == 1, d.O.Exc(d.const('EXC:' + ep.name)),
                    z3.If(b == 3, d.ret(d.const('RESP:ep'), True),
                          z3.If(b == 5, d.ret(d.const('HTTPEXC:ep'), True, False), d.ret(d.const('CTX'), False))))
        return out, d.cat(d.ev('enter:' + ep.name), z3.If(d.O.is_Exc(out), d.ev('raise:' + ep.name), d.ev('leave:' + ep.name)))

    def rn_core():
        b = rn.beh
        out = z3.If(b == 1, d.O.Exc(d.const('EXC:' + rn.name)), z3.If(b == 5, d.ret(d.const('HTTPEXC:rn'), True, False), d.ret(d.const('RESP:rn'), True)))
        return out, d.cat(d.ev('enter:' + rn.name), z3.If(d.O.is_Exc(out), d.ev('raise:' + rn.name), d.ev('leave:' + rn.name)))

    def core():
        eo, et = onion(dom, ep_layers, ep_core)
        ro, rt = onion(dom, rn_layers, rn_core)
        need_render = z3.And(d.O.is_Ret(eo), z3.Not(d.O.isresp(eo)))
        out = z3.If(need_render, ro, eo)
        return out, d.cat(et, z3.If(need_render, rt, d.empty()))
    return onion(dom, req_layers, core)
