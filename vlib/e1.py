"""E1 - CrossHair driver: obligations -> cells -> one process per condition -> verdicts -> replay."""
import ast, json, os, re, subprocess, time, textwrap
from concurrent.futures import ThreadPoolExecutor
from .common import Result, scratch, sub_env, PY, NCPU, open_findings, write_replay, VERIF


class Ob(object):
    def __init__(self, name, fn, sig, pre=(), post='_', raises=(), cells=None, timeout=60,
                 twin_fn=None, twin_pre=(), twin_timeout=40, confirm=None, ret='bool', desc='',
                 bug_hunting=False, per_path=None, packed=None):
        self.name, self.fn, self.sig = name, fn, sig
        self.pre, self.post, self.raises = list(pre), post, list(raises)
        # cells: list of (label, [extra pre lines])
        if cells is None:
            cells = [('all', [])]
        self.cells = [(c if isinstance(c, tuple) else ('c%d' % i, list(c))) for i, c in enumerate(cells)]
        self.timeout, self.twin_fn, self.twin_pre = timeout, twin_fn, list(twin_pre)
        self.twin_timeout, self.confirm, self.ret, self.desc = twin_timeout, confirm, ret, desc
        self.bug_hunting = bug_hunting   # realising inputs: confirmed is not expected, only refutations count
        self.per_path = per_path
        # packed: [(name, radix)] or [(name, radix, 'bool')]: finite selectors carried by ONE symbolic int `sel`
        # (mixed radix, first = most significant).  CrossHair forks a 'premature realisation' alternative per
        # symbolic argument and exhausts all alternatives, so k selector arguments cost up to 2^k duplicate work;
        # one packed argument avoids that.  Cells fix a prefix of the selectors: {'name': value, ...}.
        self.packed = list(packed) if packed else None

    def argnames(self):
        t = ast.parse('def f(%s): pass' % self.sig).body[0]
        return [a.arg for a in t.args.args]


def _packed_range(ob, fixed):
    """[lo, hi) of `sel` for a cell fixing a prefix of the packed selectors"""
    lo, span = 0, 1
    for item in ob.packed:
        span *= item[1]
    width = span
    for item in ob.packed:
        name, radix = item[0], item[1]
        width //= radix
        if name in fixed:
            lo += fixed[name] * width
            span = width
        else:
            break
    rest = [n for n in fixed if n not in [i[0] for i in ob.packed[:len([1 for i in ob.packed if i[0] in fixed])]]]
    return lo, lo + span


def _split_top(src):
    """split a python argument list at top-level commas"""
    out, depth, cur, q = [], 0, '', None
    for ch in src:
        if q:
            cur += ch
            if ch == q:
                q = None
            continue
        if ch in '\'"':
            q = ch
            cur += ch
        elif ch in '([{':
            depth += 1
            cur += ch
        elif ch in ')]}':
            depth -= 1
            cur += ch
        elif ch == ',' and depth == 0:
            out.append(cur.strip())
            cur = ''
        else:
            cur += ch
    if cur.strip():
        out.append(cur.strip())
    return out


def unpack(ob, sel):
    vals = []
    width = 1
    for item in ob.packed:
        width *= item[1]
    for item in ob.packed:
        width //= item[1]
        v = (sel // width) % item[1]
        vals.append(bool(v) if len(item) > 2 and item[2] == 'bool' else v)
    return vals


def _gen_cell(modname, ob, fn, pres, post, raises, ret):
    if ob.packed:
        return _gen_cell_packed(modname, ob, fn, pres, post, raises, ret)
    doc = ''.join('    pre: %s\n' % p for p in pres)
    doc += '    post: %s\n' % post
    if raises:
        doc += '    raises: %s\n' % ', '.join(raises)
    src = ('from typing import *\n'
           'import %s as _HM\n'
           'from %s import *\n\n'
           'def cell(%s) -> %s:\n'
           '    """\n%s    """\n'
           '    return _HM.%s(%s)\n') % (modname, modname, ob.sig, ret, doc, fn, ', '.join(ob.argnames()))
    return src


def _gen_cell_packed(modname, ob, fn, pres, post, raises, ret):
    # pres: first element may be a dict {selector: value} fixing a prefix; the rest are pre strings over the
    # non-packed arguments and/or the selector names (which become local ints after decoding - only usable as
    # extra constraints through `sel` ranges, so selector constraints must be expressed in the dict)
    fixed = {}
    strs = []
    for p in pres:
        if isinstance(p, dict):
            fixed.update(p)
        else:
            strs.append(p)
    lo, hi = _packed_range(ob, fixed)
    doc = '    pre: %d <= sel < %d\n' % (lo, hi) + ''.join('    pre: %s\n' % p for p in strs)
    doc += '    post: %s\n' % post
    if raises:
        doc += '    raises: %s\n' % ', '.join(raises)
    names = [i[0] for i in ob.packed]
    width = 1
    for item in ob.packed:
        width *= item[1]
    dec = []
    for item in ob.packed:
        width //= item[1]
        expr = '(sel // %d) %% %d' % (width, item[1])
        if len(item) > 2 and item[2] == 'bool':
            expr = '(%s) == 1' % expr
        dec.append('    %s = %s\n' % (item[0], expr))
    other = ob.sig.strip()
    sig = 'sel: int' + (', ' + other if other else '')
    allargs = names + ob.argnames()
    src = ('from typing import *\n'
           'import %s as _HM\n'
           'from %s import *\n'
           'from harness.util import R as _R\n\n'
           'def cell(%s) -> %s:\n'
           '    """\n%s    """\n'
           '    sel = _R(sel)\n%s'
           '    return _HM.%s(%s)\n') % (modname, modname, sig, ret, doc, ''.join(dec), fn, ', '.join('%s=%s' % (a, a) for a in allargs))
    return src


_CALL_RE = re.compile(r'when calling cell\((.*?)\)(?: \(which (?:returns|raises) .*\))?\s*$', re.S)


def _run_worker(path, timeout, per_path=None):
    t0 = time.time()
    cmd = [PY, '-m', 'vlib.ch_worker', path, 'cell', str(timeout)]
    if per_path:
        cmd.append(str(per_path))
    try:
        p = subprocess.run(cmd, cwd=VERIF, env=sub_env(), capture_output=True, text=True,
                           timeout=timeout * 1.6 + 60)
        line = p.stdout.strip().splitlines()[-1] if p.stdout.strip() else ''
        try:
            out = json.loads(line)
        except Exception:
            out = {'status': 'error', 'message': 'worker output unparsable: %s | %s' % (p.stdout[-300:], p.stderr[-600:]),
                   'paths': 0, 'cpu_s': 0}
    except subprocess.TimeoutExpired:
        out = {'status': 'unknown', 'message': 'wall timeout', 'paths': 0, 'cpu_s': timeout}
    out['wall_s'] = round(time.time() - t0, 2)
    return out


def replay(modname, fn, post, raises, argsrc, confirm=None):
    cmd = [PY, '-m', 'vlib.replay_worker', modname, fn, post, ','.join(raises), argsrc, confirm or '']
    try:
        p = subprocess.run(cmd, cwd=VERIF, env=sub_env(), capture_output=True, text=True, timeout=300)
        return json.loads(p.stdout.strip().splitlines()[-1])
    except Exception as e:
        return {'violates': False, 'how': 'replay failed: %r' % (e,), 'error': True}


def run_obligations(prop, modname, obs, tier='quick', label='E1'):
    res = Result(prop)
    res.engines.append('E1 CrossHair 0.0.110 (z3) per-path symbolic execution of the real functions')
    d = scratch()
    tasks = []
    n = 0
    only = os.environ.get('VERIF_TRIAGE_ONLY')   # development aid (tools/triage.sh): run a subset of the obligations
    if only and os.environ.get('VERIF_TRIAGE_REPO'):
        obs = [ob for ob in obs if ob.name in only.split(',')]
    for ob in obs:
        kfs = open_findings(prop, ob.name)
        assert not (kfs and ob.packed), 'known-finding predicates are not supported on packed obligations'
        kfpre = ['not (%s)' % f['predicate'] for f in kfs]
        for (clabel, cpre) in ob.cells:
            n += 1
            path = os.path.join(d, '%s_%s_%d.py' % (prop, ob.name, n))
            with open(path, 'w') as f:
                f.write(_gen_cell(modname, ob, ob.fn, list(cpre) + ob.pre + kfpre, ob.post, ob.raises, ob.ret))
            tasks.append(dict(kind='cell', ob=ob, label=clabel, path=path, timeout=ob.timeout))
        if ob.twin_fn:
            n += 1
            path = os.path.join(d, '%s_%s_twin_%d.py' % (prop, ob.name, n))
            with open(path, 'w') as f:
                f.write(_gen_cell(modname, ob, ob.twin_fn, ob.twin_pre + ob.pre + kfpre, 'not _', ob.raises, 'bool'))
            tasks.append(dict(kind='twin', ob=ob, label='twin', path=path, timeout=ob.twin_timeout))
    tasks.sort(key=lambda t: -t['timeout'])
    with ThreadPoolExecutor(max_workers=NCPU) as ex:
        futs = [(t, ex.submit(_run_worker, t['path'], t['timeout'], t['ob'].per_path)) for t in tasks]
        outs = [(t, f.result()) for t, f in futs]

    for t, out in outs:
        ob = t['ob']
        res.paths += out.get('paths', 0)
        res.evaluations += out.get('paths', 0)
        res.solver_time_s += out.get('cpu_s', 0)
        rec = dict(obligation=ob.name, cell=t['label'], kind=t['kind'], status=out['status'],
                   paths=out.get('paths', 0), cpu_s=out.get('cpu_s', 0))
        st = out['status']
        if t['kind'] == 'twin':
            res.twins_total += 1
            if st == 'refuted':
                res.twins_ok += 1
                m = _CALL_RE.search(out.get('message', ''))
                rec['witness'] = m.group(1)[:200] if m else out.get('message', '')[:200]
                if m and ob.packed:
                    try:
                        head, _, rest = m.group(1).partition(',')
                        rec['witness'] = ', '.join(repr(v) for v in unpack(ob, int(head.strip()))) + ((',' + rest) if rest.strip() else '')
                    except ValueError:
                        pass
            elif st == 'error':
                res.errors.append(dict(name=ob.name + '/twin', reason=out.get('message', '')[:800]))
            elif st == 'confirmed' or st == 'pre_unsat':
                res.vacuous.append(dict(name=ob.name, reason='twin %s: interesting outcome unreachable' % st))
            else:
                res.inconclusive.append(dict(name=ob.name + '/twin', reason=st + ': ' + out.get('message', '')[:160]))
            res.cells.append(rec)
            continue
        res.obligations += 1
        if st == 'confirmed':
            if ob.bug_hunting:
                # inputs are realised on C boundaries: "confirmed" is not exhaustive here
                res.inconclusive.append(dict(name='%s[%s]' % (ob.name, t['label']),
                                             reason='bug-hunting only (inputs realised at a C boundary); no counterexample'))
            else:
                res.discharged += 1
                res.add_sample(dict(obligation=ob.name, cell=t['label'], verdict='confirmed over all paths',
                                    paths=out.get('paths', 0), pre=ob.pre + list(dict(ob.cells).get(t['label'], [])),
                                    post=ob.post, desc=ob.desc))
        elif st == 'refuted':
            msg = out.get('message', '')
            m = _CALL_RE.search(msg)
            if not m:
                res.errors.append(dict(name=ob.name, reason='cannot parse counterexample: ' + msg[:300]))
                rec['message'] = msg[:300]
                res.cells.append(rec)
                continue
            argsrc = m.group(1)
            if ob.packed:
                head, _, rest = argsrc.partition(',')
                try:
                    vals = unpack(ob, int(head.strip()))
                except ValueError:
                    res.errors.append(dict(name=ob.name, reason='cannot decode packed selector from %r' % argsrc[:100]))
                    res.cells.append(rec)
                    continue
                names = [i[0] for i in ob.packed]
                rest_names = ob.argnames()
                rest_vals = [x for x in _split_top(rest)] if rest.strip() else []
                argsrc = ', '.join(['%s=%r' % (n, v) for n, v in zip(names, vals)] + ['%s=%s' % (n, v) for n, v in zip(rest_names, rest_vals)])
            rp = replay(modname, ob.fn, ob.post, ob.raises, argsrc, ob.confirm)
            rec['counterexample'] = argsrc[:300]
            rec['replay'] = rp.get('how', '')[:300]
            if rp.get('violates') and (ob.confirm is None or rp.get('confirm')):
                payload = dict(property=prop, obligation=ob.name, cell=t['label'], module=modname, fn=ob.fn,
                               post=ob.post, raises=ob.raises, args=argsrc, confirm=ob.confirm,
                               crosshair_message=msg[:500], replay=rp, desc=ob.desc)
                p = write_replay(prop, ob.name, payload)
                res.violations.append(dict(name=ob.name, args=argsrc, how=rp.get('how'), replay=p))
            elif rp.get('violates'):
                res.errors.append(dict(name=ob.name, reason='counterexample %s violates the unit harness but does not '
                                       'reproduce through the public API (confirm=%r %s)' % (argsrc[:200], rp.get('confirm'), rp.get('confirm_error', ''))))
            else:
                # non-reproducing candidate: CrossHair modelling artefact -> inconclusive, never a violation
                res.inconclusive.append(dict(name='%s[%s]' % (ob.name, t['label']),
                                             reason='candidate %s did not replay concretely (%s)' % (argsrc[:120], rp.get('how', '')[:120])))
        elif st == 'error':
            res.errors.append(dict(name='%s[%s]' % (ob.name, t['label']), reason=out.get('message', '')[:800]))
        else:
            res.inconclusive.append(dict(name='%s[%s]' % (ob.name, t['label']),
                                         reason=st + ': ' + out.get('message', '')[:200]))
        res.cells.append(rec)

    # known-finding witnesses (concrete re-establishment; a fixed finding silently disappears)
    for ob in obs:
        for f in open_findings(prop, ob.name):
            rp = replay(modname, ob.fn, ob.post, ob.raises, f['witness'], ob.confirm)
            if rp.get('violates'):
                res.known.append('property=%s %s' % (prop, f['what']))
    # a discharged obligation is non-trivial if its obligation's twin was refuted (or it has no twin but >1 path)
    twin_ok = set(r['obligation'] for r in res.cells if r['kind'] == 'twin' and r['status'] == 'refuted')
    has_twin = set(ob.name for ob in obs if ob.twin_fn)
    for r in res.cells:
        if r['kind'] == 'cell' and r['status'] == 'confirmed':
            if r['obligation'] in twin_ok or (r['obligation'] not in has_twin and r['paths'] > 1):
                res.nontrivial += 1
    return res
