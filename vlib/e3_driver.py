"""Driver for E3 cells (C02, C03, request-time half of C01): accepted configurations are drawn from E2's
constraint system with z3, built as real Applications, and the code those applications generated is decided
symbolically for all request values and behaviour vectors; then validated against real executions."""
import itertools, json, os, random, subprocess, sys, time, traceback
from concurrent.futures import ProcessPoolExecutor
import z3
from .common import Result, NCPU, write_replay, open_findings, sub_env, PY, VERIF
from . import e2_config as EC
from . import e3_chainir as E3
from .e2_setalg import U, BUILTINS, REQ_BUILTINS


def draw_cells(n, seed, maxmw, kf_posonly=True):
    """z3-diversified accepted configurations (models of valid AND accept_impl)."""
    rnd = random.Random(seed)
    cells = []
    tries = 0
    while len(cells) < n and tries < n * 4:
        tries += 1
        k = rnd.choice([0, 1, 1, 2, 2, 2, 3, 3, 4][:1 + 2 * maxmw])
        k = min(k, maxmw)
        ka = rnd.randrange(0, k + 1)
        shape = (tuple(rnd.choice(EC.PHASES) for _ in range(ka)), tuple(rnd.choice(EC.PHASES) for _ in range(k - ka)))
        cfg = EC.Config(shape)
        cfg.run_impl()
        cfg.spec()
        s = z3.Solver()
        s.set('random_seed', rnd.randrange(1 << 30))
        s.add(cfg.valid(), cfg.accept_impl)
        if kf_posonly:
            for f, sg, kind in cfg.fsigs:
                s.add(*[z3.Not(sg.po[x]) for x in U])
        if s.check() != z3.sat:
            continue
        vs = cfg.all_vars()
        rnd.shuffle(vs)
        for v in vs[:80]:
            # prefer configurations that actually use names: present/provided bits true
            lit = v if rnd.random() < 0.6 else z3.Not(v)
            s.push()
            s.add(lit)
            if s.check() != z3.sat:
                s.pop()
        s.check()
        cc = cfg.concrete(s.model())
        if EC.cfg_realisable(cc):
            cells.append(cc)
    return cells


def seq_events(dom, term):
    """a simplified concrete z3 Seq(Int) term -> list of event names"""
    names = dict((v, k) for k, v in dom.events.items())
    out = []

    def walk(t):
        k = t.decl().kind()
        if k == z3.Z3_OP_SEQ_CONCAT:
            for c in t.children():
                walk(c)
        elif k == z3.Z3_OP_SEQ_UNIT:
            out.append(names.get(t.children()[0].as_long(), '?'))
        elif k == z3.Z3_OP_SEQ_EMPTY:
            pass
        else:
            raise E3.Unsupported('non-concrete sequence %s' % t)
    walk(term)
    return out


def analyse_cell(args):
    cfgc, seed, nvalid = args
    out = dict(cfg=cfgc, queries=[], error=None, unsupported=None, violations=[], validated=0, t=0.0, nfuncs=0)
    try:
        REC, BEH = [], {}
        app, exc, info = EC.build_app(cfgc, seed, record=REC, beh=BEH)
        if exc is not None:
            if isinstance(exc, RuntimeError) and 'cycle' in str(exc):
                out['skipped'] = 'cyclic'
                return out
            out['error'] = 'cell was accepted by the E2 model but the real constructor raised %r' % (exc,)
            return out
        route = app.routes[0]
        ir = E3.RouteIR(route)
        dom = E3.Dom()
        # ---- the user functions, in configuration order
        mws = cfgc['mws']            # app-level first, then route-level (= merged order for distinct types)
        merged = [m for m in mws if m['level'] == 'app'] + [m for m in mws if m['level'] == 'route']
        finfos = []
        by_name = {}

        def fi(name, kind, real, provides=()):
            f = E3.FuncInfo(name, kind, real, provides, cfgc['funcs'][name]['params'])
            finfos.append(f)
            by_name[name] = f
            return f
        req_layers, ep_layers, rn_layers = [], [], []
        for m in merged:
            obj = info['mw_objs'][m['name']]
            if m['request']:
                req_layers.append(fi(m['request'], 'mw', obj.request, m['provides']))
            if m['endpoint']:
                ep_layers.append(fi(m['endpoint'], 'mw', obj.endpoint, m['endpoint_provides']))
            if m['render']:
                rn_layers.append(fi(m['render'], 'mw', obj.render, m['render_provides']))
        ep = fi('ep', 'ep', info['ep'])
        rn = fi('rn', 'rn', info['rn'])
        out['nfuncs'] = len(finfos)

        def finfo_of(real):
            for f in finfos:
                try:
                    if f.real == real or f.real is real:
                        return f
                except Exception:
                    pass
            raise E3.Unsupported('generated code calls an unknown function %r' % (real,))
        evl = E3.Evaluator(dom, ir, finfo_of)
        # what dispatch/execute/inject hand to the outermost generated function (summary, validated below)
        base_env = {}
        for n in cfgc['url']:
            base_env[n] = dom.const('URL:' + n)
        for n in set(cfgc['app_res']) | set(cfgc['route_res']):
            base_env[n] = dom.const('RES:' + n)
        for n in REQ_BUILTINS:
            base_env[n] = dom.const('BI:' + n)
        impl_out, impl_tr = evl.eval_route(base_env)
        spec_out, spec_tr = E3.spec_route(dom, req_layers, ep_layers, ep, rn_layers, rn)
        domain = z3.And(*[f.beh_domain() for f in finfos])
        t0 = time.time()

        def query(name, *cs):
            s = z3.Solver()
            s.set('timeout', 120000)
            s.add(domain, dom.distinct(), *cs)
            r = s.check()
            rec = dict(q=name, r=str(r))
            if r == z3.sat:
                m = s.model()
                rec['beh'] = dict((f.name, m.eval(f.beh, model_completion=True).as_long()) for f in finfos)
            out['queries'].append(rec)
            return rec
        # C01b: a TypeError (missing / unexpected argument) is unreachable
        te_events = [v for k, v in dom.events.items() if k.startswith('typeerror:')]
        if evl.top_missing:
            out['queries'].append(dict(q='c01b_no_typeerror', r='sat', beh={}, detail='outermost generated function needs %r which dispatch cannot supply' % evl.top_missing))
        elif te_events:
            query('c01b_no_typeerror', z3.Or(*[z3.Contains(impl_tr, z3.Unit(z3.IntVal(e))) for e in te_events]))
        else:
            out['queries'].append(dict(q='c01b_no_typeerror', r='unsat', structural=True))
        # C02: every parameter of every function gets the value of its unique declared source
        avail_req = dict(base_env)
        exp = {}
        acc = dict(avail_req)
        allq = {}
        for f in req_layers:
            exp[f.name] = dict(acc)
            for n in f.provides:
                acc[n] = dom.const('PROV:%s:%s' % (f.name, n))
                allq[n] = acc[n]
        eb = dict(base_env)
        eb.update(allq)
        acc = dict(eb)
        for f in ep_layers:
            exp[f.name] = dict(acc)
            for n in f.provides:
                acc[n] = dom.const('PROV:%s:%s' % (f.name, n))
        exp['ep'] = dict(acc)
        acc = dict(eb)
        acc['context'] = 'CONTEXT'
        for f in rn_layers:
            exp[f.name] = dict(acc)
            for n in f.provides:
                acc[n] = dom.const('PROV:%s:%s' % (f.name, n))
        exp['rn'] = dict(acc)
        wiring = []
        seen_calls = set()
        for fname, kw, ok in evl.calls:
            if fname == '<generated>':
                wiring.append('the generated code reads a name that is not in scope at that level (NameError at request time)')
                continue
            seen_calls.add(fname)
            f = by_name[fname]
            want = dict((n, exp[fname][n]) for n in f.declared if n in exp[fname])
            if f.kind == 'mw' and 'next' in f.declared:
                want['next'] = 'NEXT'
            if set(kw) != set(want):
                wiring.append('%s is called with %s but its declared+available names are %s' % (fname, sorted(kw), sorted(want)))
                continue
            for n, v in kw.items():
                w = want[n]
                if isinstance(w, str) or isinstance(v, str):
                    if isinstance(w, str) and w == 'CONTEXT':
                        # must be the value of the endpoint side's outcome
                        if isinstance(v, str) or evl.ctx_term is None or not z3.eq(v, evl.ctx_term):
                            wiring.append('%s.%s is not the endpoint result' % (fname, n))
                    elif v != w:
                        wiring.append('%s.%s receives %s, expected %s' % (fname, n, v, w))
                    continue
                s = z3.Solver()
                s.add(dom.distinct(), v != w)
                out['t'] += 0
                if s.check() != z3.unsat:
                    wiring.append('%s.%s receives %s, expected %s' % (fname, n, v, w))
        missing_calls = [f.name for f in finfos if f.name not in seen_calls]
        if missing_calls:
            wiring.append('functions never called by the generated code: %s' % missing_calls)
        out['queries'].append(dict(q='c02_wiring', r='sat' if wiring else 'unsat', detail=wiring[:5], ncalls=len(evl.calls)))
        # C03: trace and outcome equal the onion for every behaviour vector
        rec = query('c03_onion', z3.Or(impl_tr != spec_tr, impl_out != spec_out))
        if not evl.level_order_ok:
            out['queries'].append(dict(q='c03_level_indices', r='sat', detail='funcs[i] indices are not 0..n-1 in nesting order'))
        query('twin_c03', impl_tr == spec_tr, z3.Contains(impl_tr, dom.ev('raise:rn')) if True else z3.BoolVal(True))
        out['t'] = time.time() - t0
        # ---- validation against the real application: real traces/kwargs == model's, for chosen behaviour vectors
        rnd = random.Random(seed + 17)
        vectors = [dict((f.name, 0) for f in finfos)]
        for q in out['queries']:
            if q.get('r') == 'sat' and q.get('beh'):
                vectors.append(q['beh'])
        while len(vectors) < nvalid + 1:
            vectors.append(dict((f.name, rnd.choice([0, 1, 2, 3, 4, 5] if f.kind == 'mw' else ([0, 1, 3, 5] if f.kind == 'ep' else [0, 1, 5])))
                                for f in finfos))
        from werkzeug.test import EnvironBuilder
        from werkzeug.wrappers import Request
        path = ''.join('/v_%s' % n for n in cfgc['url']) or '/'
        # the same application embedded under a prefix in a parent without resources/middlewares must run the same chain
        from clastic import Application as _App
        sub0 = [(f.beh, z3.IntVal(0)) for f in finfos]
        spec_events = seq_events(dom, z3.simplify(z3.substitute(spec_tr, *sub0)))
        try:
            parent = _App([('/emb', app)])
        except Exception as e:     # noqa
            parent = None
            out['violations'].append(dict(kind='trace', beh={}, real=['embedding failed: %r' % (e,)], spec=[], status=None))
        if parent is not None:
            BEH.clear()
            del REC[:]
            presp = parent.dispatch(Request(EnvironBuilder(path='/emb' + path).get_environ()))
            real_events = ['%s:%s' % (e[0], e[1]) for e in REC]
            out['validated'] += 1
            if real_events != spec_events:
                out['violations'].append(dict(kind='trace', beh={'embedded': True}, real=real_events, spec=spec_events, status=presp.status_code))
        # ... and embedded in a parent that carries ITS OWN instances of the application-level middleware classes (unique
        # types: the embedding application's instance serves) and its own values for the same resource names (the
        # serving application's value wins): every function still receives each name from its declared source
        try:
            outer_mws = []
            for m in merged:
                if m['level'] == 'app':
                    clone = type(info['mw_objs'][m['name']])()
                    clone.sfx = '@outer'
                    outer_mws.append(clone)
            parent2 = _App([('/emb2', app)], middlewares=outer_mws,
                           resources=dict((n, 'RESOURCE:outer:%s' % n) for n in cfgc['app_res']))
        except Exception as e:     # noqa
            parent2 = None
            out['violations'].append(dict(kind='trace', beh={}, real=['embedding under a parent with own middleware instances failed: %r' % (e,)], spec=[], status=None))
        if parent2 is not None:
            BEH.clear()
            del REC[:]
            preq = Request(EnvironBuilder(path='/emb2' + path).get_environ())
            presp = parent2.dispatch(preq)
            real_events = ['%s:%s' % (e[0], e[1]) for e in REC]
            out['validated'] += 1
            if real_events != spec_events:
                out['violations'].append(dict(kind='trace', beh={'embedded': 'own instances'}, real=real_events, spec=spec_events, status=presp.status_code))
            app_level_funcs = set()
            for m in merged:
                if m['level'] == 'app':
                    app_level_funcs.update(x for x in (m['request'], m['endpoint'], m['render']) if x)
            for e in REC:
                if e[0] != 'enter':
                    continue
                fname, got = e[1], e[2]
                for n, val in got.items():
                    w = exp[fname].get(n)
                    if n == 'next' or w is None or isinstance(w, str):
                        continue
                    tag = str(w)
                    if tag.startswith('PROV:'):
                        prov_f = tag[5:].rsplit(':', 1)[0]
                        want = 'PROVIDED:' + tag[5:] + ('@outer' if prov_f in app_level_funcs else '')
                    elif tag.startswith('RES:'):
                        want = 'RESOURCE:%s:%s' % ('outer' if n in cfgc['app_res'] else 'route', n)
                    else:
                        continue
                    if val != want:
                        out['violations'].append(dict(kind='value', beh={'embedded': 'own instances'}, function=fname, param=n, got=repr(val)[:80], expected=want))
        vectors = [vectors[0]] + vectors       # the all-pass vector twice: second time with doubled slashes in the URL
        for vi, vec in enumerate(vectors):
            BEH.clear()
            BEH.update(vec)
            del REC[:]
            req = Request(EnvironBuilder(path=(path.replace('/', '//') if (vi == 1 and cfgc['url']) else path)).get_environ())
            resp = app.dispatch(req)
            real_events = ['%s:%s' % (e[0], e[1]) for e in REC]
            sub = [(f.beh, z3.IntVal(vec[f.name])) for f in finfos]
            mt = z3.simplify(z3.substitute(impl_tr, *sub))
            model_events = seq_events(dom, mt)
            st = z3.simplify(z3.substitute(spec_tr, *sub))
            spec_events = seq_events(dom, st)
            out['validated'] += 1
            typeerr = any(e.startswith('typeerror:') for e in model_events)
            if real_events != spec_events:
                # the REAL application does not behave like the onion: a genuine violation (C03), or a TypeError (C01)
                out['violations'].append(dict(kind='trace', beh=vec, real=real_events, spec=spec_events, status=resp.status_code))
            if not typeerr and real_events != model_events:
                out['error'] = 'E3 model trace %s differs from the real trace %s for %s' % (model_events, real_events, vec)
                break
            # kwargs actually received == declared source objects
            for e in REC:
                if e[0] != 'enter':
                    continue
                fname, got = e[1], e[2]
                f = by_name[fname]
                for n, val in got.items():
                    w = exp[fname].get(n)
                    if n == 'next':
                        continue
                    if w is None:
                        good = isinstance(val, str) and val == 'DEFAULT:' + n
                    elif isinstance(w, str) and w == 'CONTEXT':
                        good = val == {'ctx': 1}
                    else:
                        tag = str(w)
                        if tag.startswith('URL:'):
                            good = val == 'v_' + n
                        elif tag.startswith('RES:'):
                            lvl = 'app' if n in cfgc['app_res'] else 'route'     # the serving application's value wins (C10)
                            good = val == 'RESOURCE:%s:%s' % (lvl, n)
                        elif tag.startswith('BI:'):
                            good = (val is req if n == 'request' else val is app if n == '_application' else
                                    val is route if n == '_route' else type(val).__name__ == 'DispatchState')
                        elif tag.startswith('PROV:'):
                            good = val == 'PROVIDED:' + tag[5:]
                        else:
                            good = False
                    if not good:
                        out['violations'].append(dict(kind='value', beh=vec, function=fname, param=n, got=repr(val)[:80], expected=str(w)))
    except E3.Unsupported as e:
        out['unsupported'] = str(e)
    except Exception as e:      # noqa
        out['error'] = '%r\n%s' % (e, traceback.format_exc()[-1500:])
    return out


def _cells_for_seed(a):
    n, seed, maxmw = a
    return draw_cells(n, seed, maxmw)


def run_cells_local(ncells, seed, maxmw, nvalid):
    parts = NCPU
    with ProcessPoolExecutor(max_workers=NCPU) as ex:
        cells = [c for part in ex.map(_cells_for_seed, [((ncells + parts - 1) // parts, seed * 1000 + i, maxmw) for i in range(parts)]) for c in part]
        cells = cells[:ncells]
        outs = list(ex.map(analyse_cell, [(c, seed + i, nvalid) for i, c in enumerate(cells)], chunksize=2))
    return outs


def run_cells(ncells, seed, maxmw, nvalid, hashseeds=(0,)):
    """the generated text is assembled from unordered sets: every batch of cells is built and analysed in a
    subprocess with its own PYTHONHASHSEED; returns the concatenated analyse_cell outputs"""
    procs = []
    per = max(1, ncells // len(hashseeds))
    for i, hs in enumerate(hashseeds):
        env = sub_env({'PYTHONHASHSEED': str(hs)})
        procs.append((hs, subprocess.Popen([PY, '-m', 'vlib.e3_driver', str(per), str(seed * 31 + i), str(maxmw), str(nvalid)],
                                           cwd=VERIF, env=env, stdout=subprocess.PIPE, stderr=subprocess.PIPE, text=True)))
    outs = []
    for hs, p in procs:
        so, se = p.communicate()
        try:
            part = json.loads(so.strip().splitlines()[-1])
        except Exception:
            part = [dict(cfg={}, queries=[], error='E3 worker (hash seed %s) failed: %s' % (hs, se[-800:]), violations=[], validated=0, t=0, nfuncs=0)]
        for o in part:
            o['hashseed'] = hs
        outs += part
    return outs


def collect(prop, ctx, wanted, title):
    T = ctx.thorough
    res = Result(prop)
    res.engines.append('E3 ChainIR: generated chain sources (linecache) evaluated symbolically in z3 %s' % z3.get_version_string())
    ncells = 1600 if T else 160
    hss = list(range(16)) if T else [0, 1, 2, 3 + ctx.seed % 1000]
    outs = run_cells(ncells, ctx.seed, 4, 6 if T else 3, hss)
    nsk = 0
    for o in outs:
        if o.get('skipped'):
            nsk += 1
            continue
        if o.get('unsupported'):
            res.vacuous.append(dict(name='E3', reason='unsupported construct in generated code: ' + o['unsupported']))
            continue
        if o.get('error'):
            res.errors.append(dict(name='E3 cell', reason=o['error'][:1200] + ' cfg=' + json.dumps(o['cfg'])[:600]))
            continue
        res.solver_time_s += o['t']
        res.traces_validated += o['validated']
        for q in o['queries']:
            qn = q['q']
            if qn.startswith('twin'):
                res.twins_total += 1
                if q['r'] == 'sat':
                    res.twins_ok += 1
                continue
            if qn.split('_')[0] not in wanted:
                continue
            res.queries += 1
            res.evaluations += 1
            res.obligations += 1
            if q['r'] == 'unsat':
                res.discharged += 1
                if o['nfuncs'] >= 3:
                    res.nontrivial += 1
                if len(res.samples) < 6:
                    res.add_sample(dict(cell=dict(shape=o['cfg']['shape'], url=o['cfg']['url'], nfuncs=o['nfuncs']), query=qn, verdict='unsat for all request values and all %d^k behaviour vectors' % 5))
            elif q['r'] == 'sat':
                # a model-level counterexample must be confirmed by a real execution (validation leg above ran its vector)
                conf = [v for v in o['violations'] if (qn.startswith('c02') and v['kind'] == 'value') or (not qn.startswith('c02') and v['kind'] == 'trace')]
                if qn == 'c02_wiring' and not conf:
                    conf = [v for v in o['violations']]
                if conf:
                    pl = dict(property=prop, engine='E3', query=qn, config=o['cfg'], witness=conf[0], detail=q.get('detail'))
                    p = write_replay(prop, qn, pl)
                    if len(res.violations) < 15:
                        res.violations.append(dict(name=qn, args=json.dumps(dict(shape=o['cfg']['shape'], funcs=dict((k, v['params']) for k, v in o['cfg']['funcs'].items())))[:500],
                                                   how='%s; real execution: %s' % (q.get('detail') or q.get('beh'), json.dumps(conf[0])[:400]), replay=p))
                else:
                    res.errors.append(dict(name='E3 %s' % qn, reason='solver counterexample %s not confirmed by the real execution; cfg=%s' % (json.dumps(q)[:300], json.dumps(o['cfg'])[:500])))
            else:
                res.inconclusive.append(dict(name=qn, reason='z3 ' + q['r']))
        # real executions that contradict the oracle although the symbolic model found nothing (e.g. a change in
        # inject/execute/dispatch, which E3 only summarises): the failing run is real, so it is reported
        if o['violations'] and not any(q['r'] == 'sat' and not q['q'].startswith('twin') for q in o['queries']):
            v0 = o['violations'][0]
            mine = (v0['kind'] == 'value' and 'c02' in wanted) or (v0['kind'] == 'trace' and ('c03' in wanted or 'c01b' in wanted))
            if mine and len(res.violations) < 15:
                pl = dict(property=prop, engine='E3', query='validation', config=o['cfg'], witness=v0)
                p = write_replay(prop, 'validation', pl)
                res.violations.append(dict(name='validation', args=json.dumps(o['cfg']['shape']), how='real execution contradicts the oracle (not visible in the generated chains): %s' % json.dumps(v0)[:400], replay=p))
    if res.twins_total and res.twins_ok == 0:
        res.vacuous.append(dict(name='E3', reason='no cell reaches the twin outcome'))
    res.notes.append('%d cells analysed (%d skipped: cyclic class)' % (len(outs), nsk))
    res.functions_encoded += ['generated request/endpoint/render chain sources of each cell\'s bound route (sinter.build_chain_str output, read from linecache)',
                              'generated process_request (middleware.core._REQ_INNER_TMPL instance)',
                              'summary: BoundRoute.execute + sinter.inject pass exactly the declared parameters of the outermost generated function (validated on every cell by real requests)']
    res.bounds.update(dict(cells='%d z3-drawn accepted configurations (stacks of 0-4 middlewares, universe of 4 names + built-ins), built under PYTHONHASHSEED in %r' % (len(outs), hss),
                           per_cell='all request values (uninterpreted constants) and all behaviour vectors (5 behaviours per middleware function, 3 for the endpoint, 2 for render) in one query',
                           validation='%d real executions per cell (all-pass, every solver witness, random vectors)' % (6 if T else 3)))
    res.outside += ['configurations outside the drawn cells (the accept/reject arithmetic is covered symbolically by C01/E2)', 'middlewares calling next() more than once or from another thread',
                    'hash-seed dependence of the generated text is covered by running the cells under several PYTHONHASHSEED values in the thorough tier']
    res.assumptions += ['user functions behave as one of the enumerated behaviours (they are the quantified programs)', 'z3 sequence theory for event traces']
    return res


if __name__ == '__main__':
    n, seed, maxmw, nvalid = [int(x) for x in sys.argv[1:5]]
    try:
        outs = run_cells_local(n, seed, maxmw, nvalid)
    except Exception as e:      # e.g. an unsupported construct met while drawing cells from the E2 constraint system
        outs = [dict(cfg={}, queries=[], unsupported='while drawing cells: %r' % (e,), error=None, violations=[], validated=0, t=0, nfuncs=0)]
    sys.stdout.write(json.dumps(outs, default=str) + '\n')
