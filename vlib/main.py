"""./check <ID> [--tier quick|thorough] [--replay PATH]"""
import argparse, importlib, json, os, sys, time, traceback
from .common import write_evidence, Result, VERIF


class Ctx(object):
    def __init__(self, tier, seed):
        self.tier, self.seed = tier, seed
        self.thorough = tier == 'thorough'


def do_replay(path):
    from . import e1
    pl = json.load(open(path))
    if pl.get('engine', 'E1') == 'E1':
        rp = e1.replay(pl['module'], pl['fn'], pl['post'], pl.get('raises', []), pl['args'], pl.get('confirm'))
        print(json.dumps(rp, indent=1))
        if rp.get('violates'):
            print('REPRODUCED property=%s obligation=%s args=%s' % (pl['property'], pl['obligation'], pl['args']))
            return 1
        print('not reproduced on the current tree')
        return 0
    mod = importlib.import_module('props.' + pl['property'].lower())
    return mod.replay(pl)


def main():
    ap = argparse.ArgumentParser()
    ap.add_argument('prop')
    ap.add_argument('--tier', default=os.environ.get('VERIF_TIER', 'quick'))
    ap.add_argument('--replay')
    a = ap.parse_args()
    if a.replay:
        sys.exit(do_replay(a.replay))
    tier = a.tier if a.tier in ('quick', 'thorough') else 'quick'
    try:
        seed = int(os.environ.get('VERIF_SEED', '0'))
    except ValueError:
        seed = 0
    prop = a.prop.upper()
    t0 = time.time()
    mod = importlib.import_module('props.' + prop.lower())
    try:
        res = mod.run(Ctx(tier, seed))
    except Exception:
        traceback.print_exc()
        res = Result(prop)
        res.errors.append(dict(name='driver', reason=traceback.format_exc()[-800:]))
    wall = time.time() - t0
    write_evidence(res, tier, seed, wall, level=getattr(mod, 'LEVEL', 'model_checking'),
                   technique=getattr(mod, 'TECHNIQUE', ''))
    for k in res.known:
        print('KNOWN-FINDING: %s' % k)
    for v in res.violations:
        print('VIOLATION property=%s replay=%s' % (prop, v['replay']))
        print('  obligation=%s args=%s :: %s' % (v['name'], str(v.get('args'))[:300], str(v.get('how'))[:300]))
    print('%s tier=%s obligations=%d discharged=%d inconclusive=%d violations=%d known=%d twins=%d/%d '
          'paths=%d queries=%d wall=%.1fs' % (prop, tier, res.obligations, res.discharged, len(res.inconclusive),
                                              len(res.violations), len(res.known), res.twins_ok, res.twins_total,
                                              res.paths, res.queries, wall))
    for i in res.inconclusive[:40]:
        print('  inconclusive: %s: %s' % (i['name'], i['reason'][:200]))
    if res.violations:
        sys.exit(1)
    if res.errors:
        for e in res.errors:
            print('HARNESS-ERROR %s: %s' % (e['name'], e['reason'][:600]))
        sys.exit(3)
    if res.vacuous:
        for e in res.vacuous:
            print('VACUOUS %s: %s' % (e['name'], e['reason']))
        sys.exit(2)
    if res.discharged == 0:
        print('nothing discharged: check is inconclusive')
        sys.exit(2)
    sys.exit(0)


if __name__ == '__main__':
    main()
