#!/usr/bin/env python3
"""tools/gen_a6.py <tag> : print DESIGN.md §A.6 table rows for the seeded changes of one round (tag 'r3_' -> seeded/*_r3_*),
from seeded/<dir>/meta.json (what was run, which checks report it now), seeded/HOW.json (how a miss was closed) and
seeded/ARRIVAL.json (verdict of the property's own check as it stood when the change arrived)."""
import json, glob, os, sys

tag = sys.argv[1] if len(sys.argv) > 1 else 'r3_'
how = json.load(open('/verif/seeded/HOW.json'))
arr = json.load(open('/verif/seeded/ARRIVAL.json')) if os.path.exists('/verif/seeded/ARRIVAL.json') else {}
for d in sorted(glob.glob('/verif/seeded/*_%s*' % tag)):
    name = os.path.basename(d)
    meta = json.load(open(d + '/meta.json'))
    title = ''
    n = d + '/notes.md'
    if os.path.exists(n):
        lines = [l for l in open(n).read().splitlines() if l.strip()]
        title = lines[0].lstrip('# ').strip()[:110] if lines else ''
    by = ', '.join(meta.get('detected_by', [])) or '**none**'
    a = arr.get(name, '?')
    h = how.get(name, '')
    col = 'yes' if a == 'yes' and h in ('', '-') else ('%s - %s' % (a, h) if h not in ('', '-') else a)
    print('| %s | %s | %s | %s |' % (name, title.replace('|', '/'), by, col))
