#!/bin/bash
# tools/mkwt.sh <name>: scratch worktree of /repo HEAD under /tmp for a sub-agent
set -e
d=/tmp/wt_$1
git -C /repo worktree remove --force $d 2>/dev/null || true
rm -rf $d
git -C /repo worktree add -q --detach $d HEAD
mkdir -p $d/OUT
echo $d
