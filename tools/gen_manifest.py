#!/usr/bin/env python3
"""Regenerates /verif/MANIFEST.json from the per-property modules (props/cXX.py: TECHNIQUE, LEVEL, MANIFEST dict)."""
import json, os, sys, importlib, subprocess
sys.path.insert(0, '/verif')

ALL = ['C%02d' % i for i in range(1, 21)]
NA = {
    'C12': ('quantifies over thread schedules at line granularity inside clastic, Werkzeug and the generated chain code; '
            'CrossHair executes a single thread and has no scheduler model, and a hand encoding of CPython preemption points '
            'for dispatch + Werkzeug request objects + generated chains as SMT is out of reach of this technique family '
            '(DESIGN.md section 7)'),
}


def main():
    checks = []
    na = []
    engines = {}
    for pid in ALL:
        path = '/verif/props/%s.py' % pid.lower()
        if pid in NA:
            na.append(dict(property_id=pid, reason=NA[pid]))
            continue
        if not os.path.exists(path):
            na.append(dict(property_id=pid, reason='no check registered for this property yet (machinery for it is not built); see DESIGN.md'))
            continue
        src = open(path).read()
        ns = {}
        # only the module-level constants are needed; avoid importing engines
        import ast
        tree = ast.parse(src)
        for node in tree.body:
            if isinstance(node, ast.Assign) and isinstance(node.targets[0], ast.Name) and \
                    node.targets[0].id in ('TECHNIQUE', 'LEVEL', 'LEVEL_TEXT', 'LEVEL_NOTE', 'DESIGN_REF', 'ENGINE'):
                ns[node.targets[0].id] = ast.literal_eval(node.value)
        checks.append(dict(
            property_id=pid,
            quick_cmd='./check %s --tier quick' % pid,
            thorough_cmd='./check %s --tier thorough' % pid,
            evidence_file='/verif/evidence/%s.json' % pid,
            replay_cmd_template='./check %s --replay {path}' % pid,
            engine=ns.get('ENGINE', 'E1'),
            level_claimed=dict(category=ns.get('LEVEL', 'model_checking'),
                               text=ns.get('LEVEL_TEXT', 'bounded symbolic checking of the real code: every discharged obligation is a solver verdict for all values inside the stated bounds (see evidence bounds / outside_claim); inconclusive obligations are listed, never counted'),
                               design_ref=ns.get('DESIGN_REF', 'DESIGN.md section 4/' + pid)),
            level_note=ns.get('LEVEL_NOTE', 'trusted: CrossHair 0.0.110 + z3 semantics of Python, the contract stubs listed in the evidence file (assumptions), CPython and Werkzeug below the encoded functions'),
            technique=ns.get('TECHNIQUE', ''),
        ))
    commits = subprocess.run(['git', '-C', '/repo', 'log', '--format=%h %s'], capture_output=True, text=True).stdout.splitlines()
    hook_commits = [c.split()[0] for c in commits if c.split(' ', 1)[1].startswith('verif-hook:')]
    m = dict(
        version=1,
        setup_cmd='./setup.sh',
        hooks=dict(guard='MAHMOUD_CLASTIC_VERIF',
                   enable='no source hooks are needed: all stubs are applied by monkey-patching inside the harness processes; checks export MAHMOUD_CLASTIC_VERIF=1 anyway',
                   baseline_off_cmd='cd /repo && /venv/bin/python -m pytest -ra -q -p no:cacheprovider --timeout=900 --continue-on-collection-errors',
                   source_commits=hook_commits, add_only=True),
        engines=[
            dict(name='E1', path='/verif/vlib/e1.py', kind_free_text='CrossHair (z3) symbolic execution of the real Python functions, one OS process per condition/cell, concrete replay of every counterexample'),
            dict(name='E2', path='/verif/vlib/e2_setalg.py', kind_free_text='AST interpretation of the real bind-time name arithmetic over z3 Boolean name-sets'),
            dict(name='E3', path='/verif/vlib/e3_chainir.py', kind_free_text='generated chain source (linecache) interpreted symbolically in z3'),
            dict(name='E4', path='/verif/vlib/e4_regex.py', kind_free_text='compiled route regex (re._parser tree) translated to z3 regular expressions'),
        ],
        checks=checks,
        not_applicable=na,
        notes='All checks: ./check <ID> --tier quick|thorough. Exit 0 = held on everything explored; 1 = replayed VIOLATION; 2 = vacuous/inconclusive (nothing discharged or twin failed); 3 = harness error. Known findings: /verif/known_findings.json.',
    )
    for e in m['engines']:
        e['serves_properties'] = [c['property_id'] for c in checks if e['name'] in c['engine']]
    m['engines'] = [e for e in m['engines'] if os.path.exists(e['path'])]
    with open('/verif/MANIFEST.json', 'w') as f:
        json.dump(m, f, indent=1)
    import jsonschema
    jsonschema.validate(m, json.load(open('/root/.vp/MANIFEST.schema.json')))
    print('MANIFEST ok: %d checks, %d not_applicable' % (len(checks), len(na)))


if __name__ == '__main__':
    main()
