#!/bin/bash
# tools/mkmut.sh <name> <file-relative-to-repo> <python-expr old> <new>  : make a one-replacement mutant diff under /verif/mutants
name="$1"; file="$2"; old="$3"; new="$4"
cd /repo
python3 - "$file" "$old" "$new" <<'PY'
import sys
f, old, new = sys.argv[1:4]
s = open(f).read()
assert s.count(old) >= 1, 'pattern not found'
s = s.replace(old, new, 1)
open(f, 'w').write(s)
PY
[ $? -eq 0 ] || { git checkout -- .; exit 1; }
git diff > /verif/mutants/$name.diff
git checkout -- .
echo "mutants/$name.diff: $(wc -l < /verif/mutants/$name.diff) lines"
