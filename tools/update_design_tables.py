#!/usr/bin/env python3
"""tools/update_design_tables.py : refresh the generated tables of DESIGN.md (§A.3 from evidence/, §A.6 round-3 rows from seeded/)."""
import subprocess, re
s = open('/verif/DESIGN.md').read()
for tag, cmd in (('A3', ['python3', '/verif/tools/gen_a3.py']), ('A6R3', ['python3', '/verif/tools/gen_a6.py', 'r3_'])):
    out = subprocess.run(cmd, capture_output=True, text=True).stdout
    s = re.sub(r'<!-- %s:BEGIN -->\n.*?<!-- %s:END -->' % (tag, tag), lambda m: '<!-- %s:BEGIN -->\n%s<!-- %s:END -->' % (tag, out, tag), s, flags=re.S)
open('/verif/DESIGN.md', 'w').write(s)
