#!/usr/bin/env python3
"""tools/gen_a3.py : print the DESIGN.md §A.3 table from the evidence files of the last runs (run after a clean
quick sweep).  Columns: id, engines, obligations (name x cells), decided/total, paths+queries, validation runs,
wall time, known findings."""
import json, glob, collections, os, sys

rows = []
for f in sorted(glob.glob('/verif/evidence/C*.json')):
    e = json.load(open(f))
    c = e['coverage']
    per = collections.Counter()
    for cell in c.get('cells', []):
        if cell.get('kind', 'cell') == 'cell':
            per[cell['obligation']] += 1
    obs = ', '.join('%s×%d' % kv for kv in per.items()) or '-'
    eng = '+'.join(x.split()[0] for x in c.get('engines', []))
    kf = '; '.join(x[:70] + '…' for x in c.get('known_findings_reproduced', [])) or '-'
    rows.append('| %s | %s | %s | %s/%s (%d inconclusive) | %d paths, %d queries | %d | %s s (%s) | %s |' % (
        e['property_id'], eng, obs, c.get('discharged'), c.get('obligations'), c.get('inconclusive_count', 0),
        c.get('symbolic_paths', 0), c.get('queries', 0), c.get('traces_validated_against_impl', 0),
        int(e['wall_s']), e['tier'], kf))
print('| id | engines | obligations × cells | decided | solver work | validation runs | wall | known findings reproduced |')
print('|---|---|---|---|---|---|---|---|')
print('\n'.join(rows))
