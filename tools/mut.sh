#!/bin/bash
# tools/mut.sh <patch.diff|--revert COMMIT> <ID> [tier]   : apply a change to /repo, run one check, undo the change.
set -u
P="$1"; ID="$2"; TIER="${3:-quick}"
cd /repo
if [ -n "$(git status --porcelain --untracked-files=no)" ]; then echo "repo dirty"; exit 9; fi
if [ "$P" = "--revert" ]; then shift; C="$1"; ID="$2"; TIER="${3:-quick}"; git diff "$C^" "$C" | git apply -R || exit 9
else git apply "$P" || exit 9; fi
cd /verif; cp evidence/$ID.json /tmp/mut_ev_$$.json 2>/dev/null
./check "$ID" --tier "$TIER" > /tmp/mut_$$.log 2>&1; rc=$?
git -C /repo checkout -- .
[ -f /tmp/mut_ev_$$.json ] && mv /tmp/mut_ev_$$.json evidence/$ID.json
grep -E "^(VIOLATION|KNOWN|C[0-9]+ tier|HARNESS|VACUOUS)" /tmp/mut_$$.log | head -8; rm -f /tmp/mut_$$.log
echo "exit=$rc"
