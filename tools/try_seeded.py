#!/usr/bin/env python3
"""tools/try_seeded.py <PROP> <srcdir> <k> [check-ids...]
Confirm a sub-agent's change (patch<k>.diff + demo<k>.py in <srcdir>) in a scratch worktree, run the checks against
it in /repo (apply -> check -> checkout), and file it under /verif/seeded/<PROP>_<k>/."""
import json, os, shutil, subprocess, sys, time

prop, src, k = sys.argv[1], sys.argv[2], sys.argv[3]
checks = sys.argv[4:] or [prop]
patch = os.path.join(src, 'patch%s.diff' % k)
demo = os.path.join(src, 'demo%s.py' % k)
notes = os.path.join(src, 'notes%s.md' % k)


def sh(cmd, cwd=None, timeout=3600):
    p = subprocess.run(cmd, shell=True, cwd=cwd, capture_output=True, text=True, timeout=timeout)
    return p.returncode, (p.stdout + p.stderr)


meta = dict(property=prop, source='independent sub-agent given only the property text and a scratch worktree', ran=[])
wt = '/tmp/sw_%s_%s%s' % (prop, os.environ.get('SEEDED_TAG', ''), k)
sh('git -C /repo worktree remove --force %s' % wt)
shutil.rmtree(wt, ignore_errors=True)
rc, out = sh('git -C /repo worktree add -q --detach %s HEAD' % wt)
assert rc == 0, out
os.makedirs(wt + '/OUT', exist_ok=True)
shutil.copy(demo, wt + '/OUT/demo%s.py' % k)
try:
    rc0, out0 = sh('/venv/bin/python OUT/demo%s.py' % k, cwd=wt)
    meta['demo_clean_exit'] = rc0
    rc, out = sh('git apply %s' % patch, cwd=wt)
    meta['applies'] = rc == 0
    if rc != 0:
        print('PATCH DOES NOT APPLY', out)
    else:
        rc1, out1 = sh('/venv/bin/python OUT/demo%s.py' % k, cwd=wt)
        meta['demo_mutant_exit'] = rc1
        meta['demo_mutant_output'] = out1[-600:]
        rct, outt = sh('/venv/bin/python -m pytest -q -p no:cacheprovider clastic/tests 2>&1 | tail -1', cwd=wt)
        meta['tests'] = outt.strip()[-120:]
finally:
    sh('git -C /repo worktree remove --force %s' % wt)
    shutil.rmtree(wt, ignore_errors=True)
confirmed = meta.get('applies') and meta.get('demo_clean_exit') == 0 and meta.get('demo_mutant_exit') == 1 and '89 passed' in meta.get('tests', '')
meta['confirmed'] = bool(confirmed)
print(json.dumps(meta, indent=1)[:1500])
if not confirmed:
    sys.exit(1)
# run the checks against the change in /repo
st = subprocess.run('git -C /repo status --porcelain --untracked-files=no', shell=True, capture_output=True, text=True).stdout.strip()
assert not st, '/repo dirty'
results = {}
rc, out = sh('git -C /repo apply %s' % patch)
assert rc == 0, out
# evidence/ describes the unchanged tree: keep the files of the checks run against the change out of it
saved = {c: open('/verif/evidence/%s.json' % c).read() for c in checks if os.path.exists('/verif/evidence/%s.json' % c)}
try:
    for cid in checks:
        t0 = time.time()
        rc, out = sh('./check %s --tier quick' % cid, cwd='/verif')
        lines = [l for l in out.splitlines() if l.startswith(('VIOLATION', 'KNOWN', cid + ' tier', 'HARNESS', 'VACUOUS'))]
        results[cid] = dict(exit=rc, wall_s=round(time.time() - t0, 1), lines=lines[:6])
        print(cid, 'exit', rc, lines[:3])
finally:
    sh('git -C /repo checkout -- .')
    for c, txt in saved.items():
        open('/verif/evidence/%s.json' % c, 'w').write(txt)
meta['checks'] = results
meta['detected_by'] = [c for c, r in results.items() if r['exit'] == 1]
meta['ran'] = ['scratch worktree: demo on clean code (exit %s), git apply, demo on the change (exit %s), full test suite (%s)' % (
    meta.get('demo_clean_exit'), meta.get('demo_mutant_exit'), meta.get('tests')),
    'git -C /repo apply patch.diff; ./check <ID> --tier quick for %s; git -C /repo checkout -- .' % ', '.join(checks)]
if os.path.exists(notes):
    meta['needs_to_manifest'] = open(notes).read()[:1500]
d = '/verif/seeded/%s_%s%s' % (prop, os.environ.get('SEEDED_TAG', ''), k)
os.makedirs(d, exist_ok=True)
shutil.copy(patch, d + '/patch.diff')
shutil.copy(demo, d + '/demo.py')
if os.path.exists(notes):
    shutil.copy(notes, d + '/notes.md')
json.dump(meta, open(d + '/meta.json', 'w'), indent=1)
print('filed', d, 'detected_by', meta['detected_by'])
