#!/bin/bash
# tools/triage.sh <patch.diff> <ID> [tier]  : development aid - run one check against a scratch worktree of /repo
# carrying the change (VERIF_TRIAGE_REPO), evidence/replays diverted to the scratch dir.  /repo is not touched, so this
# can run while other checks run.  The filed result of a seeded change always comes from tools/try_seeded.py
# (git -C /repo apply; ./check; git -C /repo checkout).
set -u
P="$(readlink -f "$1")"; ID="$2"; TIER="${3:-quick}"
W=$(mktemp -d /tmp/triage_XXXXXX); rmdir $W
git -C /repo worktree add -q --detach $W HEAD || exit 9
( cd $W && git apply "$P" ) || { git -C /repo worktree remove --force $W; exit 9; }
mkdir -p $W/.triage_out
cd ${VERIF_DEV_ROOT:-/verif}
VERIF_TRIAGE_REPO=$W VERIF_TRIAGE_OUT=$W/.triage_out ./check "$ID" --tier "$TIER" > $W/.triage_out/log 2>&1; rc=$?
grep -E "^(VIOLATION|KNOWN|C[0-9]+ tier|HARNESS|VACUOUS)" $W/.triage_out/log | cut -c1-300 | head -${TRIAGE_LINES:-6}
[ -n "${TRIAGE_KEEP:-}" ] && cp $W/.triage_out/log /tmp/triage_last_$ID.log
git -C /repo worktree remove --force $W; rm -rf $W
echo "exit=$rc"
