"""C10 harness: an embedded application tree vs. the independently flattened declaration."""
from typing import List
from clastic.application import Application, SubApplication
from clastic.route import Route, GET, POST, S_REDIRECT, S_REWRITE, S_STRICT
from clastic.middleware import Middleware
from clastic.errors import ErrorHandler, NotFound, Forbidden
from werkzeug.wrappers import Response, Request
from werkzeug.test import EnvironBuilder
from harness.util import R, untraced

PREFIXES = ['/p', '/p/', '/', '/p/q', '/x/y/']
MODES = [S_REDIRECT, S_REWRITE, S_STRICT]
VIA_ADD = [False]
NO_FACTORY = [False]      # tree-wide: no level has a render factory (routes then render nothing, at every depth)
DECOY = [False]           # the innermost application is first embedded in an unrelated application


class TraceMW(Middleware):
    def __init__(self, tag):
        self.tag = tag

    def request(self, next, request):
        request.environ.setdefault('verif.trace', []).append(self.tag)
        return next()


class MA(TraceMW):
    pass


class MB(TraceMW):
    pass


class MN(TraceMW):
    unique = False


MWTYPES = [MA, MB, MN]
# per-level middleware list selector
MWLISTS = [[], [0], [1], [0, 1], [1, 0], [2], [0, 2]]


def mk_factory(tag):
    def factory(arg):
        def render(context):
            return Response('F:%s|%s|%s' % (tag, arg, context))
        return render
    factory.tag = tag
    return factory


class TagEH(ErrorHandler):
    def __init__(self, tag):
        ErrorHandler.__init__(self)
        self.tag = tag

    def render_error(self, request, _error, eh_res):
        _error.adapt('text/plain')
        _error.headers['X-EH'] = '%s eh_res=%s' % (self.tag, eh_res)       # the error renderer sees the serving application's resources
        return _error


def _ep_plain(request, r='unset'):
    return 'plain r=%s trace=%s' % (r, ','.join(request.environ.get('verif.trace', [])))


def _ep_bind(request, name, r='unset'):
    return 'bind %s r=%s trace=%s' % (name, r, ','.join(request.environ.get('verif.trace', [])))


def _ep_err(request):
    raise Forbidden('denied')


def _ep_resp(request, r='unset'):
    return Response('direct r=%s trace=%s' % (r, ','.join(request.environ.get('verif.trace', []))))


LEAF_ROUTES = [('/a', _ep_plain, 'tmpl_a', None), ('/b/<name>/', _ep_bind, 'tmpl_b', None), ('/err', _ep_err, 'tmpl_e', None),
               ('/c', _ep_resp, None, ['POST']), ('/', _ep_plain, 'tmpl_root', None)]


def level_cfg(sel):
    """decode one level's configuration from a selector (mixed radix)"""
    d = {}
    d['prefix'] = PREFIXES[sel % 5]; sel //= 5
    d['mws'] = MWLISTS[sel % 7]; sel //= 7
    d['res'] = sel % 3; sel //= 3            # 0: does not define r, 1: defines r, 2: defines r and s
    d['mode'] = MODES[sel % 3]; sel //= 3
    d['inherit'] = bool(sel % 2); sel //= 2
    d['rebind'] = bool(sel % 2); sel //= 2
    d['factory'] = not NO_FACTORY[0]   # MIXED trees (some levels with, some without a factory): which outer factory takes over is undocumented (outside)
    return d
LEVEL_RADIX = 5 * 7 * 3 * 3 * 2 * 2


def _mws(idx, level):
    return [MWTYPES[i]('%s%d.%s' % (level, k, MWTYPES[i].__name__)) for k, i in enumerate(idx)]


def build_nested(levels):
    """levels[0] is the outermost application; the innermost holds the leaf routes"""
    n = len(levels)
    insts = []
    for li, lv in enumerate(levels):
        insts.append(dict(mws=_mws(lv['mws'], 'L%d' % li),
                          res=dict({'eh_res': 'eh@L%d' % li}, **({'r': 'r@L%d' % li} if lv['res'] else {})),
                          factory=mk_factory('L%d' % li) if lv['factory'] else None,
                          eh=TagEH('L%d' % li)))
        if lv['res'] == 2:
            insts[-1]['res']['s'] = 's@L%d' % li
    inner = None
    for li in range(n - 1, -1, -1):
        lv, ins = levels[li], insts[li]
        if li == n - 1:
            routes = [Route(p, ep, render=rn, methods=m) for (p, ep, rn, m) in LEAF_ROUTES]
            inner = Application(routes, resources=ins['res'], middlewares=ins['mws'], render_factory=ins['factory'],
                                error_handler=ins['eh'], slash_mode=lv['mode'])
            if DECOY[0]:
                # embedding is non-destructive: an earlier embedding of the same application elsewhere (another factory,
                # other resources and middlewares) changes nothing for the tree under test
                Application([('/decoy', inner)], resources={'eh_res': 'decoy', 'r': 'decoy', 's': 'decoy'}, middlewares=_mws([0, 1], 'DECOY'),
                            render_factory=mk_factory('DECOY'), error_handler=TagEH('DECOY'))
        else:
            child = levels[li + 1]
            app = Application([], resources=ins['res'], middlewares=ins['mws'], render_factory=ins['factory'],
                              error_handler=ins['eh'], slash_mode=lv['mode'])
            if VIA_ADD[0]:
                # the embedding options given as keywords of add()
                app.add((child['prefix'], inner), rebind_render=child['rebind'], inherit_slashes=child['inherit'])
            else:
                app.add(SubApplication(child['prefix'], inner, rebind_render=child['rebind'], inherit_slashes=child['inherit']))
            app.add(Route('/own%d' % li, _ep_plain, render='tmpl_own'))
            inner = app
    return inner, insts


def build_flat(levels, insts):
    """the flattened declaration, written from the statement (not from clastic's binding code)"""
    n = len(levels)
    outer, oins = levels[0], insts[0]
    # total prefix of the leaf level
    def total_prefix(upto):
        p = ''
        for li in range(1, upto + 1):
            p += levels[li]['prefix'].rstrip('/')
        return p

    def merged_mws(upto):
        merged = []
        for li in range(1, upto + 1):
            for m in insts[li]['mws']:
                if m.unique and any(type(x) is type(m) for x in merged + oins['mws']):
                    continue
                merged.append(m)
        return merged

    def resources(upto):
        res = {}
        for li in range(upto, 0, -1):
            res.update(insts[li]['res'])         # an inner-only name keeps its (single) inner value
        return res

    def slash_mode(upto):
        # a level's routes keep their mode at each embedding step unless inherit is set
        mode = levels[upto]['mode']
        for li in range(upto, 0, -1):
            if levels[li]['inherit']:
                mode = levels[li - 1]['mode']
        return mode

    def render_for(upto, render_arg):
        if render_arg is None:
            return None
        # the route's own level renders it; an embedding step that asks for re-binding hands it to that outer level
        fac = insts[upto]['factory']
        for li in range(upto - 1, -1, -1):
            if levels[li + 1]['rebind']:
                fac = insts[li]['factory']
        return fac
    flat = Application([], resources=oins['res'], middlewares=oins['mws'], render_factory=None, error_handler=oins['eh'], slash_mode=outer['mode'])
    entries = []

    def add_level(li):
        if li == n - 1:
            for (p, ep, rn, m) in LEAF_ROUTES:
                entries.append((li, p, ep, rn, m))
        else:
            add_level(li + 1)
            entries.append((li, '/own%d' % li, _ep_plain, 'tmpl_own', None))
    add_level(0)
    for (li, p, ep, rn, m) in entries:
        fac = render_for(li, rn)
        render = fac(rn) if (fac and rn is not None) else None
        route = Route(total_prefix(li) + p, ep, render=render, methods=m, middlewares=merged_mws(li), resources=resources(li),
                      slash_mode=slash_mode(li))
        flat.add(route, inherit_slashes=False)
    return flat


REQUESTS = []


def _requests(levels):
    tp = ''.join(lv['prefix'].rstrip('/') for lv in levels[1:])
    out = []
    for path in (tp + '/a', tp + '/a/', tp + '//a', tp + '/b/zed/', tp + '/b/zed', tp + '/err', tp + '/c', tp + '/', tp, tp + '/own0', '/own0', '/own1',
                 tp + '/nothing', '/a', tp.rsplit('/', 1)[0] + '/own1' if tp else '/zz'):
        for method in ('GET', 'POST'):
            out.append((path or '/', method))
    return out


def _observe(app, path, method):
    env = EnvironBuilder(path=path, method=method).get_environ()
    resp = app.dispatch(Request(env))
    return (resp.status_code, resp.get_data(True) if resp.status_code < 300 or resp.status_code >= 400 else '',
            resp.headers.get('Location'), resp.headers.get('X-EH'), resp.headers.get('Allow'))


def _equiv(sels):
    levels = [level_cfg(s) for s in sels]
    levels[0]['prefix'] = ''
    for name, minres in (('r', 1), ('s', 2)):
        inner_defs = sum(1 for lv in levels[1:] if lv['res'] >= minres)
        if inner_defs >= 2 and levels[0]['res'] < minres:
            return True        # a name defined only by two inner levels has no documented precedence (excluded by the property)
    nested, insts = build_nested(levels)
    flat = build_flat(levels, insts)
    if [r.pattern for r in nested.routes] != [r.pattern for r in flat.routes]:
        return False
    for (path, method) in _requests(levels):
        a, b = _observe(nested, path, method), _observe(flat, path, method)
        if a != b:
            return False
    return True


def ob_equiv2(s0: int, s1: int) -> bool:
    with untraced():
        return _equiv([s0, s1])


def ob_equiv3(s0: int, s1: int, s2: int) -> bool:
    with untraced():
        return _equiv([s0, s1, s2])


def confirm_equiv2(s0, s1):
    return not _equiv([s0, s1])


def confirm_equiv3(s0, s1, s2):
    return not _equiv([s0, s1, s2])


def explain(sels):
    levels = [level_cfg(s) for s in sels]
    levels[0]['prefix'] = ''
    nested, insts = build_nested(levels)
    flat = build_flat(levels, insts)
    out = [repr(levels), repr([r.pattern for r in nested.routes]), repr([r.pattern for r in flat.routes])]
    for (path, method) in _requests(levels):
        a, b = _observe(nested, path, method), _observe(flat, path, method)
        if a != b:
            out.append('%s %s\n   nested %r\n   flat   %r' % (method, path, a, b))
    return '\n'.join(out)


def enc(prefix_i=0, mws_i=0, res=0, mode_i=0, inherit=1, rebind=0):
    return prefix_i + 5 * (mws_i + 7 * (res + 3 * (mode_i + 3 * (inherit + 2 * rebind))))


def ob_slash2(prefix_i: int, m0: int, m1: int, inherit: bool, rebind: bool, via_add: bool = False) -> bool:
    """prefix x slash modes x inherit_slashes x rebind_render (given to SubApplication or as add() keywords), depth 2"""
    with untraced():
        VIA_ADD[0] = bool(via_add)
        return _equiv([enc(mode_i=m0, mws_i=1, res=1), enc(prefix_i, 3, 2, m1, int(inherit), int(rebind))])


def ob_mws2(a: int, b: int, prefix_i: int, res0: int, res1: int) -> bool:
    """middleware lists of both levels x resources of both levels x prefix, depth 2"""
    with untraced():
        return _equiv([enc(mws_i=a, res=res0), enc(prefix_i, b, res1)])


def ob_depth3(a: int, b: int, c: int, p1: int, p2: int, inh: int, reb: int, res_sel: int) -> bool:
    """depth 3: middleware lists x prefixes x inherit/rebind flags of both embedding steps x resource placement"""
    with untraced():
        r0, r1, r2 = [(0, 0, 1), (1, 0, 1), (0, 1, 0), (1, 1, 1), (2, 0, 2), (0, 0, 0)][res_sel]
        return _equiv([enc(mws_i=a, res=r0, mode_i=0), enc(p1, b, r1, 1, inh % 2, reb % 2), enc(p2, c, r2, 2, inh // 2, reb // 2)])


def confirm_slash2(prefix_i, m0, m1, inherit, rebind, via_add=False):
    VIA_ADD[0] = bool(via_add)
    return not _equiv([enc(mode_i=m0, mws_i=1, res=1), enc(prefix_i, 3, 2, m1, int(inherit), int(rebind))])


def confirm_mws2(a, b, prefix_i, res0, res1):
    return not _equiv([enc(mws_i=a, res=res0), enc(prefix_i, b, res1)])


def confirm_depth3(a, b, c, p1, p2, inh, reb, res_sel):
    r0, r1, r2 = [(0, 0, 1), (1, 0, 1), (0, 1, 0), (1, 1, 1), (2, 0, 2), (0, 0, 0)][res_sel]
    return not _equiv([enc(mws_i=a, res=r0, mode_i=0), enc(p1, b, r1, 1, inh % 2, reb % 2), enc(p2, c, r2, 2, inh // 2, reb // 2)])


def ob_reembedded(prefix_i: int, b: int, rebind: bool, nofactory: bool, res1: int) -> bool:
    """the innermost application was embedded in an unrelated application before; trees whose levels all have / all lack a render factory"""
    with untraced():
        NO_FACTORY[0], DECOY[0] = bool(nofactory), True
        try:
            return _equiv([enc(mws_i=0, res=1), enc(prefix_i, b, res1, 0, 1, int(rebind))]) and \
                _equiv([enc(mws_i=1, res=0), enc(1, 0, 1, 0, 1, 0), enc(prefix_i, b, res1, 0, 1, int(rebind))])
        finally:
            NO_FACTORY[0], DECOY[0] = False, False


def confirm_reembedded(prefix_i, b, rebind, nofactory, res1):
    NO_FACTORY[0], DECOY[0] = bool(nofactory), True
    try:
        return not (_equiv([enc(mws_i=0, res=1), enc(prefix_i, b, res1, 0, 1, int(rebind))]) and
                    _equiv([enc(mws_i=1, res=0), enc(1, 0, 1, 0, 1, 0), enc(prefix_i, b, res1, 0, 1, int(rebind))]))
    finally:
        NO_FACTORY[0], DECOY[0] = False, False
