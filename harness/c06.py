"""C06 harnesses: the real Application.dispatch / DispatchState / NullRoute over symbolic stub routing tables."""
from typing import List, Tuple
import clastic.application as A
from clastic.application import Application, DispatchState
from clastic.route import Route, BoundRoute, NullRoute
from clastic.errors import (HTTPException, NotFound, Forbidden, InternalServerError, MethodNotAllowed, BadGateway)
from werkzeug.wrappers import Response, Request, BaseResponse
from werkzeug.test import EnvironBuilder


def _ep():
    return Response('x')


# method sets exactly as the real Route constructor normalises them
METHOD_DECLS = [None, ['get'], ['POST'], ['GET', 'post']]
METHODS = [Route('/x', _ep, methods=m).methods for m in METHOD_DECLS]
FROZEN = [None if m is None else frozenset(m) for m in METHODS]
REQ_METHODS = ['GET', 'HEAD', 'pOsT', 'PUT']
_REQS = [Request(EnvironBuilder(path='/x', method=m).get_environ()) for m in REQ_METHODS]
NBEH = 7
# one int per table row: 0 = pattern does not match; else 1 + msel*7 + behaviour (realised once by the lookup)
ROWS = [(False, 0, 0)] + [(True, ms, b) for ms in range(len(METHOD_DECLS)) for b in range(NBEH)]


class StubRoute(object):
    """Stand-in for a BoundRoute exposing exactly what dispatch() reads; match_method is the REAL method."""
    is_branch = False
    slash_mode = 'redirect'
    render_error = None
    match_method = BoundRoute.match_method

    def __init__(self, idx, pmatch, msel, beh):
        self.idx, self.pmatch, self.beh = idx, pmatch, beh
        self.methods = None if METHODS[msel] is None else set(FROZEN[msel])    # every stub route owns its set
        self.msel = msel
        self.pattern = '/stub%d' % idx

    def match_path(self, path):
        return {} if self.pmatch else None

    def execute(self, **kw):
        b, i = self.beh, self.idx
        if b == 0:
            return Response('R%d' % i)
        if b == 1:
            raise NotFound(is_breaking=False, detail='N%d' % i)
        if b == 2:
            return Forbidden(is_breaking=False, detail='N%d' % i)
        if b == 3:
            raise Forbidden(detail='B%d' % i)
        if b == 4:
            raise ValueError('U%d' % i)
        if b == 5:
            return 'not a response %d' % i
        raise BadGateway(detail='B%d' % i)

    def execute_error(self, request, _error, **kw):
        return _error


def _admits(msel, method):
    ms = FROZEN[msel]
    if not ms:
        return True
    return any(method.lower() == x.lower() for x in ms)


def spec(table, method, pre_nb, pre_allowed):
    """the statement as a fold; pre_* is an arbitrary valid earlier state of the same request."""
    last_nb = 'PRE' if pre_nb else None
    allowed = set(['PATCH']) if pre_allowed else set()
    for i, (pm, msel, b) in enumerate(table):
        if not pm:
            continue
        if not _admits(msel, method):
            allowed |= set(FROZEN[msel])
            continue
        if b == 0:
            return ('resp', i)
        if b in (1, 2):
            last_nb = i
            continue
        if b in (3, 6):
            return ('break', i)
        return ('500', i)
    if last_nb is not None:
        return ('nb', last_nb)
    if allowed:
        return ('405', sorted(allowed))
    return ('404', None)


class _CheapExcInfo(object):
    """C06 does not look inside the 500 (C08 does): boltons.tbutils formatting is replaced by a cheap recorder."""
    exc_type = 'ValueError'

    @classmethod
    def from_current(cls):
        return cls()

    def to_dict(self):
        return {}

    def __repr__(self):
        return '<exc>'


_APP = Application([])
_APP.error_handler.exc_info_type = _CheapExcInfo


def _dispatch(table, mi, pre_nb, pre_allowed):
    app = _APP
    app.routes = [StubRoute(i, pm, ms, b) for i, (pm, ms, b) in enumerate(table)]
    pre_exc = NotFound(is_breaking=False, detail='NPRE')
    pre_exc.source_route = StubRoute(99, True, 0, 0)

    def mk_state():
        ds = DispatchState()
        if pre_nb:
            ds.add_exception(pre_exc)
        if pre_allowed:
            ds.update_methods(set(['PATCH']))
        return ds
    o = A.DispatchState
    A.DispatchState = mk_state
    try:
        out = app.dispatch(_REQS[mi])
        for r in app.routes:
            if (r.methods is None) != (FROZEN[r.msel] is None) or (r.methods is not None and r.methods != FROZEN[r.msel]):
                return 'MUTATED'          # dispatch changed a route's method set
        return out
    finally:
        A.DispatchState = o
        app.routes = []


def _check(ret, kind, who):
    if not isinstance(ret, BaseResponse):
        return False          # includes the 'MUTATED' marker of _dispatch
    if kind == 'resp':
        return (not isinstance(ret, HTTPException)) and ret.get_data() == b'R%d' % who
    if kind == 'nb':
        return isinstance(ret, HTTPException) and ret.detail == ('NPRE' if who == 'PRE' else 'N%d' % who) \
            and ret.status_code in (403, 404)
    if kind == 'break':
        return isinstance(ret, HTTPException) and ret.detail == 'B%d' % who and ret.status_code in (403, 502)
    if kind == '500':
        return isinstance(ret, InternalServerError) and ret.status_code == 500
    if kind == '405':
        if not (isinstance(ret, MethodNotAllowed) and ret.status_code == 405):
            return False
        if sorted(ret.allowed_methods) != who:
            return False
        allow = ret.headers.get('Allow')
        if allow is None:
            return False
        return sorted(x.strip() for x in allow.split(',')) == who
    return isinstance(ret, NotFound) and ret.status_code == 404 and ret.detail != 'NPRE'


def ob_dispatch(rows: List[int], mi: int, pre_nb: bool, pre_allowed: bool) -> bool:
    table = [ROWS[r] for r in rows]
    ret = _dispatch(table, mi, pre_nb, pre_allowed)
    kind, who = spec(table, REQ_METHODS[mi], pre_nb, pre_allowed)
    return _check(ret, kind, who)


def tw_dispatch(rows: List[int], mi: int, pre_nb: bool, pre_allowed: bool) -> bool:
    table = [ROWS[r] for r in rows]
    kind, who = spec(table, REQ_METHODS[mi], pre_nb, pre_allowed)
    return kind == '405' and len(who) >= 3 and ob_dispatch(rows, mi, pre_nb, pre_allowed)


def confirm_dispatch(rows, mi, pre_nb, pre_allowed):
    table = [ROWS[r] for r in rows]
    """public API: a real Application with real routes realising the same table (distinct static patterns for
    non-matching rows, the request path for matching rows)."""
    if pre_nb or pre_allowed:
        # realise the pre-state with real leading routes
        lead = []
        if pre_nb:
            lead.append((True, 0, 1))
        if pre_allowed:
            lead.append((True, None, 0))
    else:
        lead = []

    def mk_ep(i, b):
        def ep():
            return StubRoute(i, True, 0, b).execute()
        return ep
    routes = []
    rows = []
    if pre_nb:
        def ep_pre():
            raise NotFound(is_breaking=False, detail='NPRE')
        routes.append(Route('/x', ep_pre))
    if pre_allowed:
        routes.append(Route('/x', _ep, methods=['PATCH']))
    for i, (pm, ms, b) in enumerate(table):
        routes.append(Route('/x' if pm else '/other%d' % i, mk_ep(i, b), methods=METHOD_DECLS[ms]))
    app = Application(routes)
    ret = app.dispatch(_REQS[mi])
    kind, who = spec(table, REQ_METHODS[mi], pre_nb, pre_allowed)
    if not _check(ret, kind, who):
        return True
    # a request must not change how later requests are routed (e.g. by mutating a route's method set)
    for mj in range(len(REQ_METHODS)):
        ret = app.dispatch(_REQS[mj])
        kind, who = spec(table, REQ_METHODS[mj], pre_nb, pre_allowed)
        if not _check(ret, kind, who):
            return True
    return False


# ---- method admission in isolation, symbolic method text
def ob_match_method(m: str, msel: int) -> bool:
    r = StubRoute(0, True, msel, 0)
    got = r.match_method(m)
    ms = METHODS[msel]
    if not ms or not m:
        return got is True
    return got == any(m.lower() == x.lower() for x in ms)


def ob_method_norm(a: int, b: int, dup: bool) -> bool:
    """Route(methods=...): case-insensitive, GET implies HEAD, unknown methods rejected with InvalidMethod."""
    from clastic.route import InvalidMethod, HTTP_METHODS
    names = ['get', 'GET', 'Post', 'put', 'HEAD', 'brew', 'delete', 'OPTIONS', 'patch', 'trace', 'connect']
    decl = [names[a], names[b]] + ([names[a]] if dup else [])
    try:
        r = Route('/x', _ep, methods=decl)
    except InvalidMethod:
        return any(n.upper() not in HTTP_METHODS for n in decl)
    want = set(n.upper() for n in decl)
    if 'GET' in want:
        want.add('HEAD')
    return r.methods == want and all(n.upper() in HTTP_METHODS for n in decl)


# ---- tables built by add() calls interleaved with requests
from harness.util import R, untraced


def _mkep(tag):
    def ep():
        return Response(tag)
    return ep


def _add_history(i0, i1, patt0, patt1, warm):
    """constructor list [/<name>, /b] then add(e0, i0), [request], add(e1, i1): first match in CURRENT list order"""
    def ep_name(name):
        return Response('name:' + name)
    app = Application([('/<name>', ep_name), ('/b', _mkep('b'))])
    model = [('/<name>', 'name'), ('/b', 'b')]
    P = ['/a', '/b', '/<other>']
    IDX = [None, 0, 1, 2, 5]

    def answer(path):
        for patt, tag in model:
            if patt.startswith('/<') or patt == path:
                return ('name:' + path[1:]) if tag == 'name' else tag
        return None

    def check():
        for path in ('/a', '/b', '/zzz'):
            resp = app.dispatch(Request(EnvironBuilder(path=path).get_environ()))
            if resp.get_data(True) != answer(path):
                return False
        return True
    for step, (pi, ii) in enumerate(((patt0, i0), (patt1, i1))):
        if warm or step == 1:
            if not check():
                return False
        tag = 'new%d' % step
        patt = P[pi]
        ep = (lambda other, tag=tag: Response(tag)) if '<' in patt else _mkep(tag)
        idx = IDX[ii]
        if idx is None:
            app.add((patt, ep))
            model.append((patt, tag))
        else:
            app.add((patt, ep), index=idx)
            model.insert(min(idx, len(model)), (patt, tag))
    return check() and [r.pattern for r in app.routes] == [p for p, _ in model]


def ob_add_history(i0: int, i1: int, patt0: int, patt1: int, warm: bool) -> bool:
    with untraced():
        return _add_history(i0, i1, patt0, patt1, warm)


def confirm_add_history(i0, i1, patt0, patt1, warm):
    return not _add_history(i0, i1, patt0, patt1, warm)


# ---- error objects that live across requests (module-level "canned" errors returned or raised by several routes)
_CANNED_A = Forbidden(is_breaking=False, detail='canned-A')
_CANNED_B = NotFound(is_breaking=False, detail='canned-B')


def _canned(r0, r1, r2, r3):
    """rows: 0 no match, 1 returns the canned error A, 2 raises the canned error B, 3 raises a fresh non-breaking error,
    4 answers.  The response is the first answering route's, else the MOST RECENT non-breaking error (the same object,
    however often it was seen before), else 404."""
    rows = [r0, r1, r2, r3]

    def mk(i, kind):
        def ep():
            if kind == 1:
                return _CANNED_A
            if kind == 2:
                raise _CANNED_B
            if kind == 3:
                raise NotFound(is_breaking=False, detail='fresh-%d' % i)
            return Response('R%d' % i)
        return ep
    app = Application([Route('/x' if k else '/other%d' % i, mk(i, k)) for i, k in enumerate(rows)])
    want = None
    for i, k in enumerate(rows):
        if k == 4:
            want = ('resp', i)
            break
        if k:
            want = ('nb', (k, i))
    for _ in range(2):          # the second request sees whatever the first one left behind
        ret = app.dispatch(_REQS[0])
        if want is None:
            ok = isinstance(ret, NotFound) and ret.status_code == 404 and ret is not _CANNED_B
        elif want[0] == 'resp':
            ok = not isinstance(ret, HTTPException) and ret.get_data() == b'R%d' % want[1]
        else:
            k, i = want[1]
            ok = (ret is _CANNED_A) if k == 1 else (ret is _CANNED_B) if k == 2 else \
                (isinstance(ret, NotFound) and ret.detail == 'fresh-%d' % i)
        if not ok:
            return False
    return True


def ob_canned(r0: int, r1: int, r2: int, r3: int) -> bool:
    with untraced():
        return _canned(r0, r1, r2, r3)


def confirm_canned(r0, r1, r2, r3):
    return not _canned(r0, r1, r2, r3)
