"""helpers shared by the E1 harnesses"""
try:
    from crosshair import realize as _realize
except Exception:                                   # pragma: no cover
    def _realize(x):
        return x


def R(x):
    """Realise a symbolic selector (a finite fork over its values): everything computed from it afterwards is
    concrete.  Exhaustiveness is kept - CrossHair explores every value the preconditions allow."""
    return _realize(x)


import builtins as _b


def concrete_repr(module):
    """CrossHair intercepts builtins.repr() and may 'short-circuit' it into an arbitrary symbolic string (an
    over-approximation with an infinite domain); encoding such a string costs seconds per call.  Installing this module-level `repr` (same value, realised) in a
    module under test changes representation only."""
    def repr(o):            # noqa: A001
        return R(type(o).__repr__(o))       # not builtins.repr: CrossHair may short-circuit it into an arbitrary str
    module.repr = repr


import contextlib


def untraced():
    """After every symbolic input of an obligation has been realised (a finite, solver-driven case split), the
    rest of the run depends on concrete values only; executing it outside CrossHair's tracer is the real
    CPython semantics at native speed (and free of interception artefacts such as ShellMutableSet)."""
    try:
        from crosshair.tracers import NoTracing, is_tracing
        if is_tracing():
            return NoTracing()
    except Exception:
        pass
    return contextlib.nullcontext()
