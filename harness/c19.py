"""C19 harnesses: Reservoir sample store and StatsMiddleware counting (real code, symbolic op sequences)."""
from typing import List, Tuple
import clastic.middleware.stats as S
from clastic.errors import NotFound, Forbidden, HTTPException
from werkzeug.wrappers import Response, BaseResponse


# ---------------------------------------------------------------- (a) sample store
RMAX = 4

def _run_reservoir(cap, ops, rnd):
    """ops: ints decoded as kind = o % 2 (0 = add a fresh distinct value, 1 = resize(1 + (o // 2) % RMAX)); the store is iterated after every op.
    rnd: the random source - fast_randint(a, b) returns rnd[i] clamped into its contract [a, b]."""
    it = iter(rnd)
    orig = S.fast_randint

    def stub_randint(a, b):
        x = next(it)
        return a + x % (b - a + 1)      # any value of the contract [a, b]; no forking on the clamp
    S.fast_randint = stub_randint
    try:
        r = S.Reservoir(cap=cap)
        added = []
        capn = cap
        replaced = False
        ok = True
        for i, o in enumerate(ops):
            k = o % 2
            v = 1 + (o // 2) % RMAX
            if k == 0:
                before = list(r)
                r.add(100 + i)
                added.append(100 + i)
                after = list(r)
                if len(after) == len(before) and after != before:
                    replaced = True
            else:
                capn = v
                r.resize(capn)
            data = list(r)
            ok = ok and r.total_count == len(added) and len(data) <= capn
            for d in data:
                ok = ok and (d in added)
        return ok, replaced, (len(added) > capn)
    finally:
        S.fast_randint = orig


def ob_reservoir(cap: int, ops: List[int], rnd: List[int]) -> bool:
    return _run_reservoir(cap, ops, rnd)[0]


def tw_reservoir(cap: int, ops: List[int], rnd: List[int]) -> bool:
    ok, replaced, over = _run_reservoir(cap, ops, rnd)
    return replaced and over


def confirm_reservoir(cap, ops, rnd):
    """Public-API reproduction: same ops against a real Reservoir with the *real* module-level random
    source replaced by the schedule the solver chose (fast_randint is the only nondeterminism)."""
    try:
        return not _run_reservoir(cap, ops, rnd)[0]
    except Exception:
        return True


# ---------------------------------------------------------------- (b) counting
class _Route(object):
    def __init__(self, pattern):
        self.pattern = pattern


class _Req(object):
    path = '/x'


class _App(object):
    def __init__(self, mws):
        self.middlewares = mws


class _CheapStats(object):
    def __init__(self, data, **kw):
        self.n = len(data)

    def describe(self, **kw):
        return {'count': -1, 'n': self.n}


_ROUTES = [_Route('/a'), _Route('/b')]


def _outcomes():
    return [Response('ok'),
            Response('', status=302),
            NotFound(is_breaking=False),
            Forbidden(),
            ValueError('boom')]


_DEC = [(o % 2, o // 2) for o in range(14)]
_KEYS = ['200', '302', '404', '403', "'ValueError'"]


def _run_counting(ops):
    """ops: ints in 0..13 decoded as route = o % 2, kind = o // 2. kind 0 Response 200, 1 Response 302, 2 *returned* NotFound, 3 *raised* Forbidden,
    4 raised ValueError, 5 = read report, 6 = reset through the reset endpoint."""
    clock = [1000.0]

    def now():
        clock[0] += 1.0
        return clock[0]
    otime, ostats = S.time.time, S.Stats
    S.time.time = now
    S.Stats = _CheapStats           # boltons.statsutils figures are outside the claim (count field is clastic's)
    try:
        mw = S.StatsMiddleware()
        app = _App([mw])
        outs = _outcomes()
        model = {}
        ok = True
        nhits = 0
        for o in ops:
            rt, kind = _DEC[o]           # realises the selector once; everything after is concrete
            route = _ROUTES[rt]
            if kind <= 4:
                o = outs[kind]
                if kind >= 3:
                    def nxt(o=o):
                        raise o
                else:
                    def nxt(o=o):
                        return o
                got = None
                try:
                    got = mw.request(nxt, _Req(), route)
                except Exception as e:
                    got = e
                ok = ok and (got is o)      # the middleware hands back exactly what next() produced
                key = (route.pattern, _KEYS[kind])
                model[key] = model.get(key, 0) + 1
                nhits += 1
            else:
                if kind == 5:
                    rep = S.get_stats_dict(app)
                else:
                    rep = S.get_and_reset_stats_dict(app)
                seen = {}
                for patt, per_status in rep['route_stats'].items():
                    for status, d in per_status.items():
                        seen[(patt, status)] = d['count']
                ok = ok and seen == model
                if kind == 6:
                    model = {}
        seen = {}
        for route, per_status in mw.route_hits.items():
            for status, resv in per_status.items():
                seen[(route.pattern, status)] = resv.total_count
        ok = ok and seen == model
        return ok, nhits
    finally:
        S.time.time = otime
        S.Stats = ostats


def ob_counting(ops: List[int]) -> bool:
    return _run_counting(ops)[0]


def tw_counting(ops: List[int]) -> bool:
    ok, nhits = _run_counting(ops)
    return nhits >= 2 and any(_DEC[o][1] == 6 for o in ops)


def _e2e_counting(ops):
    """Through the public API: a real Application with StatsMiddleware and the stats sub-application; the stats
    application's own routes are requests that reach a route, too (a read is counted after its report was built,
    the reset request is the first request of the new period)."""
    from clastic import Application
    from clastic.middleware.stats import StatsMiddleware, create_stats_app
    import json
    cur = {}

    def _do(kind):
        o = _outcomes()[kind]
        if kind >= 3:
            raise o
        return o
    mw = StatsMiddleware()
    app = Application([('/a', lambda: _do(cur['kind'])), ('/b', lambda: _do(cur['kind'])), ('/_stats', create_stats_app())], middlewares=[mw])
    cl = app.get_local_client()
    model = {}
    expect_status = [200, 302, 404, 403, 500]
    for o in ops:
        rt, kind = _DEC[o]
        if kind <= 4:
            cur['kind'] = kind
            patt = ['/a', '/b'][rt]
            resp = cl.get(patt)
            if resp.status_code != expect_status[kind]:
                return False
            key = (patt, _KEYS[kind])
            model[key] = model.get(key, 0) + 1
            if kind == 2:
                # a non-breaking error falls through to the catch-all route, which the request reaches as well
                nk = ('/<_ignored*>', '404')
                model[nk] = model.get(nk, 0) + 1
        else:
            if kind == 5:
                rep = json.loads(cl.get('/_stats/?format=json').get_data(True))
            else:
                rep = json.loads(cl.post('/_stats/reset?format=json').get_data(True))
            seen = {}
            for patt, per in rep['route_stats'].items():
                for status, d in per.items():
                    seen[(patt, status)] = d['count']
            if seen != model:
                return False
            if kind == 5:
                model[('/_stats/', '200')] = model.get(('/_stats/', '200'), 0) + 1
            else:
                model = {('/_stats/reset', '200'): 1}
    return True


def ob_e2e_counting(o0: int, o1: int, o2: int, o3: int) -> bool:
    from harness.util import untraced
    with untraced():
        return _e2e_counting([o0, o1, o2, o3])


def confirm_e2e_counting(o0, o1, o2, o3):
    return not _e2e_counting([o0, o1, o2, o3])


def confirm_counting(ops):
    """Through the public API: a real Application with StatsMiddleware and the stats sub-application."""
    from clastic import Application
    from clastic.middleware.stats import StatsMiddleware, create_stats_app
    outs = _outcomes()
    cur = {}

    def ep_a():
        return _do(cur['kind'])

    def ep_b():
        return _do(cur['kind'])

    def _do(kind):
        o = _outcomes()[kind]
        if kind >= 3:
            raise o
        return o
    mw = StatsMiddleware()
    app = Application([('/a', ep_a), ('/b', ep_b), ('/_stats', create_stats_app())], middlewares=[mw])
    cl = app.get_local_client()
    model = {}
    expect_status = [200, 302, 404, 403, 500]
    bad = False
    for o in ops:
        rt, kind = _DEC[o]
        if kind <= 4:
            cur['kind'] = kind
            patt = ['/a', '/b'][rt]
            resp = cl.get(patt)
            if resp.status_code != expect_status[kind]:
                bad = True
            key = (patt, _KEYS[kind])
            model[key] = model.get(key, 0) + 1
        else:
            import json
            if kind == 5:
                rep = json.loads(cl.get('/_stats/?format=json').get_data(True))
            else:
                rep = json.loads(cl.post('/_stats/reset?format=json').get_data(True))
            seen = {}
            for patt, per in rep['route_stats'].items():
                if patt.startswith('/_stats'):
                    continue
                for status, d in per.items():
                    seen[(patt, status)] = d['count']
            if seen != model:
                bad = True
            if kind == 6:
                model = {}
    return bad
