"""C11 harnesses: Application.add insertion/atomicity (real add + stub route factories) and operation
histories over real applications compared with a model routing table."""
from typing import List, Tuple
from clastic.application import Application, SubApplication
from clastic.route import Route, InvalidPattern
from werkzeug.wrappers import Response, Request
from werkzeug.test import EnvironBuilder
from harness.util import R, untraced


# ------------------------------------------------------------------ (a) insertion unit
class _Marker(object):
    def __init__(self, tag):
        self.tag = tag
        self.pattern = tag


class _StubSub(SubApplication):
    """a route factory whose bind_all yields `n` markers, the k-th binding failing with exception type `exc`"""
    def __init__(self, n, k, exc):
        SubApplication.__init__(self, '/stub', None)
        self.n, self.k, self.exc = n, k, exc

    def bind_all(self, app, **kw):
        out = []
        for i in range(self.n):
            if i == self.k:
                raise [NameError, InvalidPattern, TypeError, ValueError][self.exc]('bind %d fails' % i)
            out.append(_Marker('new%d' % i))
        return out


def _insert(nold, nnew, index, k, exc, use_none):
    with untraced():
        app = Application([])      # construction is not the subject here (and breaks under the tracer: ShellMutableSet)
    app.routes = [_Marker('old%d' % i) for i in range(nold)]
    before = [m.tag for m in app.routes]
    raised = None
    try:
        if use_none:
            app.add(_StubSub(nnew, k, exc))
        else:
            app.add(_StubSub(nnew, k, exc), index=index)
    except Exception as e:
        raised = e
    return before, [m.tag for m in app.routes], raised


def ob_insert(nold: int, nnew: int, index: int, k: int, exc: int, use_none: bool) -> bool:
    nold, nnew, k, exc = R(nold), R(nnew), R(k), R(exc)
    before, after, raised = _insert(nold, nnew, index, k, exc, use_none)
    if 0 <= k < nnew:
        # a failing add leaves the table exactly as it was, and the failure is the binding's own exception
        return raised is not None and after == before and type(raised) is [NameError, InvalidPattern, TypeError, ValueError][exc]
    if raised is not None:
        return False
    new = ['new%d' % i for i in range(nnew)]
    if use_none:
        pos = nold
    elif index < 0:
        pos = nold + index
        if pos < 0:
            pos = 0
    elif index > nold:
        pos = nold
    else:
        pos = index
    return after == before[:pos] + new + before[pos:]


def tw_insert(nold: int, nnew: int, index: int, k: int, exc: int, use_none: bool) -> bool:
    nold, nnew, k, exc = R(nold), R(nnew), R(k), R(exc)
    before, after, raised = _insert(nold, nnew, index, k, exc, use_none)
    return raised is None and nnew == 2 and nold == 2 and after[1] == 'new0'


def confirm_insert(nold, nnew, index, k, exc, use_none):
    """public API: real routes and a real embedded application"""
    def ep():
        return Response('x')
    app = Application([('/old%d' % i, ep) for i in range(nold)])
    sub = Application([('/new%d' % i, ep) for i in range(nnew)])
    if 0 <= k < nnew:
        sub.resources['dep'] = 1
        def needs(dep):
            return Response('d')
        sub.routes[k] = Route('/new%d' % k, needs).bind(sub)
    before = [r.pattern for r in app.routes]
    try:
        if use_none:
            app.add(('/', sub))
        else:
            app.add(('/', sub), index=index)
        raised = False
    except NameError:
        raised = True
    after = [r.pattern for r in app.routes]
    if 0 <= k < nnew:
        return not (raised and after == before)
    pos = nold if use_none else (max(0, nold + index) if index < 0 else min(index, nold))
    return after != before[:pos] + ['/new%d' % i for i in range(nnew)] + before[pos:]


# ------------------------------------------------------------------ (b) histories over real applications
def _mk_ep(tag):
    def ep():
        return Response(tag)
    return ep


def _ep_x(x):
    return Response('r1:' + x)


def _ep_dep(dep):
    return Response('dep')


from clastic.middleware import Middleware


class ProvQ(Middleware):
    provides = ('q',)

    def request(self, next):
        return next(q='app-q')


class OtherProvQ(Middleware):
    provides = ('q',)

    def request(self, next):
        return next(q='route-q')


class TagMW(Middleware):
    provides = ('tag',)

    def __init__(self, tag):
        self.tag = tag

    def request(self, next):
        return next(tag=self.tag)


def _ep_tag(tag):
    return Response('tag:' + tag)


class WhoMW(Middleware):
    """per-instance state: every application of the world carries its OWN instance (unique type)"""
    provides = ('who',)

    def __init__(self, who):
        self.who = who

    def request(self, next):
        return next(who=self.who)


def _mk_who_ep(tag):
    def ep(who, res_shared):
        return Response(tag + '@' + who + '/' + res_shared)
    return ep


def _late_wrapper(earlier, tag):
    """functools.wraps around an endpoint some application has already bound and served, with ANOTHER signature"""
    import functools

    @functools.wraps(earlier)
    def wrapper(who, res_shared='dflt'):
        return Response(tag + '@' + who + '/' + res_shared)
    return wrapper


def _world():
    w = {}
    w['R0'] = Route('/r0', _mk_who_ep('r0'))      # answers with the serving application's WhoMW instance
    w['R1'] = Route('/r1/<x>', _ep_x)
    w['S'] = Application([Route('/s0', _mk_ep('s0')), Route('/s1/', _mk_ep('s1'))])
    # embedding SB fails at its SECOND route: that route's own middleware provides `q`, which conflicts with the
    # embedding application's ProvQ (inside SB alone there is no conflict)
    w['SB'] = Application([Route('/ok', _mk_ep('sb-ok')), Route('/clash', _mk_ep('sb-clash'), middlewares=[OtherProvQ()]),
                           Route('/after', _mk_ep('sb-after'))])
    w['b0_ep'] = _mk_ep('b0')
    w['apps'] = [Application([], middlewares=[ProvQ(), WhoMW('A')], resources={'res_shared': 'a'}),
                 Application([Route('/b0', w['b0_ep'])], middlewares=[ProvQ(), WhoMW('B')], resources={'res_shared': 'b'})]    # same resource NAMES, own values
    w['model'] = [[], [('/b0', 'b0')]]
    return w


def _snapshot(w):
    def rsnap(r):
        return (r.pattern, id(r.endpoint), tuple(r.middlewares), tuple(sorted(r.resources.items())), r.methods, r.slash_mode, id(r.render))

    def asnap(a):
        return (tuple(id(r) for r in a.routes), tuple(r.pattern for r in a.routes), tuple(sorted(a.resources)),
                tuple(a.middlewares), a.slash_mode,
                tuple((tuple(id(x) for x in r.bound_apps), id(r.render), id(r._execute), tuple(sorted(r.resources)), tuple(r.middlewares), r.slash_mode,
                       id(r.render_error)) for r in a.routes))
    return (rsnap(w['R0']), rsnap(w['R1']), asnap(w['S']), asnap(w['SB']))


def _probe(app, model):
    """every model route answers with its own endpoint (and, where it asks for it, with the value of the SERVING
    application's own middleware instance); an unknown path is a 404"""
    who = [m for m in app.middlewares if isinstance(m, WhoMW)][0].who
    for patt, tag in model:
        path = patt.replace('<x>', 'X')
        resp = app.dispatch(Request(EnvironBuilder(path=path).get_environ()))
        want = 'r1:X' if tag == 'r1' else (tag[:-1] + who + '/' + who.lower() if tag.endswith('@?') else tag)
        if resp.status_code != 200 or resp.get_data(True) != want:
            return False
    resp = app.dispatch(Request(EnvironBuilder(path='/definitely/not/there').get_environ()))
    return resp.status_code == 404


NOPS = 10


def _apply(w, t, kind, step):
    apps, model = w['apps'], w['model']
    app, m = apps[t], model[t]
    if kind == 0:
        app.add(w['R0'])
        m.append(('/r0', 'r0@?'))
    elif kind == 1:
        app.add(('/t%d' % step, _late_wrapper(w['b0_ep'], 't%d' % step)))
        m.append(('/t%d' % step, 't%d@?' % step))
    elif kind == 2:
        app.add(('/sub%d' % step, w['S']))
        m.extend([('/sub%d/s0' % step, 's0'), ('/sub%d/s1/' % step, 's1')])
    elif kind == 3:
        app.add(w['R1'], index=0)
        m.insert(0, ('/r1/<x>', 'r1'))
    elif kind == 4:
        try:
            app.add(('/bad%d' % step, w['SB']))
            return False
        except NameError:
            pass
    elif kind == 5:
        try:
            app.add(('nopattern', _mk_ep('zz')))
            return False
        except InvalidPattern:
            pass
    elif kind == 6:
        try:
            app.add(Route('/c%d' % step, _mk_ep('c'), resources={'request': 1}))
            return False
        except NameError:
            pass
    elif kind == 7:
        other = 1 - t
        app.add(('/emb%d' % step, apps[other]))
        m.extend([('/emb%d' % step + p, tag) for p, tag in model[other]])
    elif kind == 9:
        # a route with its OWN middleware: later routes of the same application must not inherit it
        app.add(Route('/own%d' % step, _ep_tag, middlewares=[TagMW('own%d' % step)]))
        m.append(('/own%d' % step, 'tag:own%d' % step))
    else:
        # a constructor call that fails must not disturb anything either
        try:
            Application([w['R1'], ('/x', _ep_dep)])
            return False
        except NameError:
            pass
    return True


def run_history(ops):
    w = _world()
    snap = _snapshot(w)
    app_mws = [tuple(id(m) for m in a.middlewares) for a in w['apps']]
    for step, o in enumerate(ops):
        t, kind = o % 2, o // 2
        if not _apply(w, t, kind, step):
            return False
        for i in (0, 1):
            app, m = w['apps'][i], w['model'][i]
            if [r.pattern for r in app.routes] != [p for p, _ in m]:
                return False
            if not _probe(app, m):
                return False
        if _snapshot(w) != snap:
            return False
        if [tuple(id(m) for m in a.middlewares) for a in w['apps']] != app_mws:
            return False          # binding routes never changes an application's own middleware list
    return True


def ob_history(ops: List[int]) -> bool:
    ops = [R(o) for o in ops]
    with untraced():
        return run_history(ops)


def tw_history(ops: List[int]) -> bool:
    ops = [R(o) for o in ops]
    with untraced():
        return run_history(ops) and any(o // 2 == 7 for o in ops) and any(o // 2 == 4 for o in ops)


def confirm_history(ops):
    return not run_history(ops)
