"""C05 E1 harnesses: converters and pattern rejection (real clastic.route functions)."""
from typing import List
from clastic.route import build_converter, Route, InvalidPattern, TYPE_CONV_MAP
from harness.util import R

CONVS = [str, int, float]


def _group(nseg, s1, s2, k1, k2):
    g = ''
    if nseg >= 1:
        g += '/' * k1 + s1
    if nseg >= 2:
        g += '/' * k2 + s2
    return g


def ob_multi(typ: int, optional: bool, s1: str, s2: str, k1: int, k2: int, nseg: int) -> bool:
    conv = CONVS[R(typ)]
    k1, k2, nseg = R(k1), R(k2), R(nseg)
    f = build_converter(conv, optional=optional, multi=True)
    g = _group(nseg, s1, s2, k1, k2)
    got = f(g)
    want = [conv(x) for x in ([s1, s2][:nseg])]
    again = f(g)
    if again is got:
        return False          # every match gets its own list (a shared one would leak between requests)
    return isinstance(got, list) and got == want and all(type(a) is conv for a in got)


def tw_multi(typ: int, optional: bool, s1: str, s2: str, k1: int, k2: int, nseg: int) -> bool:
    return ob_multi(typ, optional, s1, s2, k1, k2, nseg) and nseg == 2 and s1 != s2


def confirm_multi(typ, optional, s1, s2, k1, k2, nseg):
    from clastic import Application
    tname = ['str', 'int', 'float'][typ]
    op = '*' if optional else '+'
    if nseg == 0 and not optional:
        return False
    app = Application([('/<v%s%s>' % (op, tname), lambda v: None)], slash_mode='rewrite')
    path = _group(nseg, s1, s2, k1, k2) or '/'
    got = app.routes[0].match_path(path)
    want = [CONVS[typ](x) for x in ([s1, s2][:nseg])]
    if got is None or got.get('v') != want:
        return True
    got['v'].append('leftover from an earlier request')
    again = app.routes[0].match_path(path)
    return again is None or again.get('v') != want        # every match gets its own list


def ob_single(typ: int, optional: bool, s1: str, k1: int, absent: bool) -> bool:
    conv = CONVS[R(typ)]
    f = build_converter(conv, optional=optional, multi=False)
    if absent and optional:
        return f('') is None
    got = f('/' * R(k1) + s1)
    return got == conv(s1) and type(got) is conv


# ---- rejection: patterns assembled from a catalogue of well-formed and ill-formed pieces
PIECES = ['/a', '/<x>', '/<y:int>', '/<x*float>', '/<z?>', 'a', '//b', '/<x:foo>', '/<w!int>', '/<w**int>', '/', '',
          '/<y+str>', '/<_u:unicode>']
BAD_PIECE = {5: 'noslash', 6: 'dslash', 7: 'type', 8: 'op', 9: 'op'}


def _expect_invalid(idx):
    patt = ''.join(PIECES[i] for i in idx)
    if not patt.startswith('/'):
        return True
    if '//' in patt:
        return True
    names = []
    for i in idx:
        p = PIECES[i]
        if i in (7, 8, 9):
            return True
        if '<' in p:
            nm = p[2:p.index('>')]
            for ch in ':*?+!':
                nm = nm.split(ch)[0]
            if nm in names:
                return True
            names.append(nm)
    return False


def ob_rejection(a: int, b: int, c: int) -> bool:
    idx = [R(a), R(b), R(c)]
    patt = ''.join(PIECES[i] for i in idx)
    want = _expect_invalid(idx)
    for mode in ('strict', 'redirect', 'rewrite'):
        try:
            Route(patt, lambda: None, slash_mode=mode)
            got = False
        except InvalidPattern:
            got = True
        if got != want:
            return False
    return True


def tw_rejection(a: int, b: int, c: int) -> bool:
    idx = [R(a), R(b), R(c)]
    return ob_rejection(a, b, c) and _expect_invalid(idx) and idx[1] == 1
