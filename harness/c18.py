"""C18 harnesses: meta.get_resource_info / get_mw_infos on symbolic text; MetaApplication end to end."""
from typing import List
import clastic.meta as M
from clastic.meta import MetaApplication, MetaPeripheral, get_resource_info, get_mw_infos
from clastic import Application, Route, render_basic, GET
from clastic.middleware import Middleware
from clastic.middleware.cookie import SignedCookieMiddleware
from clastic.static import StaticApplication
from werkzeug.wrappers import Response
from harness.util import R, untraced, concrete_repr
concrete_repr(M)


class _Res(object):
    def __init__(self, pairs):
        self.pairs = pairs

    def items(self):
        return list(self.pairs)


class _AppStub(object):
    def __init__(self, pairs=(), mws=()):
        self.resources = _Res(pairs)
        self.middlewares = list(mws)


class _ReprIs(object):
    def __init__(self, text):
        self.text = text

    def __repr__(self):
        return self.text


PADS = ['', 'x' * 33, 'x' * 36, 'x' * 39, 'x' * 70]


def ob_redact(p: str, s: str, v: str, vkind: int, pad: int = 0) -> bool:
    """a resource whose name contains 'secret' is listed with the marker and none of its value"""
    vkind, pad = R(vkind), R(pad)
    if pad % 2:
        # the long-value form (beyond the 70-character truncation): p, s, v are realised and the run is native
        p, s, v = R(p), R(s), R(v)
        with untraced():
            return _redact(PADS[pad] + p + 'secret' + s, 'V' + v + 'W' * 90, vkind)
    return _redact(PADS[pad] + p + 'secret' + s, 'V' + v + 'W', vkind)


def _redact(key, val, vkind):
    obj = [val, val.encode('utf8'), [val, 1], {'k': val}, _ReprIs(val), (val,)][vkind]
    info = get_resource_info(_AppStub([(key, obj), ('plain', 'visible')]))
    if len(info) != 2:
        return False
    row = info[0]
    if row['key'] != key or row['value'] != '[REDACTED]':
        return False
    for field in row.values():
        if isinstance(field, str) and val in field:
            return False
    return info[1] == {'key': 'plain', 'value': repr('visible')}


def ob_visible(key: str, v: str) -> bool:
    """other resources stay visible (truncated repr)"""
    info = get_resource_info(_AppStub([(key, v)]))
    r = repr(v)
    want = r if len(r) <= 70 else r[:67] + '...'
    return info == [{'key': key, 'value': want}]


def tw_redact(p: str, s: str, v: str, vkind: int, pad: int = 0) -> bool:
    return ob_redact(p, s, v, vkind, pad) and len(p) == 1 and len(s) == 1


def ob_mw_key(k: str, named: bool) -> bool:
    """the signing key of a cookie middleware appears in no field of the middleware listing"""
    key = 'K' + k + 'Z'
    mw = SignedCookieMiddleware(secret_key=key, arg_name='session' if named else 'cookie')
    infos = get_mw_infos(_AppStub(mws=[mw]))
    for d in infos:
        for field in d.values():
            if key in repr(field):
                return False
    return len(infos) == 1 and infos[0]['type_name'] == 'SignedCookieMiddleware'


# ------------------------------------------------------------------ end to end
SECRET_NAMES = ['secret', 'secret_key', 'db_secret', 'a_rather_long_resource_name_for_the_payment_gateway_secret', 'xsecretx', 'topsecret']
PLAIN_NAMES = ['database', 'token', 'SECRET_UPPER', 'secre', 'ecret']
MARK = 'S3CR3T-VALUE-<&>"\'{}'


class _Obj(object):
    def __repr__(self):
        return '<Obj holding %s>' % MARK


def _values():
    return [MARK, MARK.encode('utf8'), 12345678901, [1, MARK], {'inner': MARK}, _Obj(), (MARK, MARK), '', None, {'deep': [{'x': MARK}]},
            'long ' * 20 + MARK, [MARK] * 12]


class _FailPeri(MetaPeripheral):
    title = 'Failing'
    group_key = 'failing'

    def __init__(self, mode):
        self.mode = mode

    def get_context(self):
        if self.mode == 1:
            raise RuntimeError('ctx boom <b>')
        if self.mode == 5:
            raise NotImplementedError          # an exception without any message
        if self.mode == 6:
            raise KeyError()
        return {'ok': 1}

    def render_main_page_html(self, context):
        if self.mode == 2:
            raise ValueError('render boom')
        if self.mode == 7:
            assert False
        return '<p>fine</p>'

    def get_general_items(self, context):
        if self.mode == 3:
            raise KeyError('items boom')
        if self.mode == 4:
            return [('k', 'v'), 'odd', ('a', 'b', 'c'), 5]
        return [('k', 'v')]


_SENTINEL = object()


class _Callable(object):
    def __call__(self):
        return Response('c')


class _Holder(object):
    def method(self):
        return Response('m')

    @staticmethod
    def smethod():
        return Response('s')


def _host(name_i, val_i, mount, fail_mode, plain_i):
    mark_val = _values()[val_i]
    resources = {SECRET_NAMES[name_i]: mark_val, PLAIN_NAMES[plain_i]: 'PLAINVALUE'}
    peris = [_FailPeri(fail_mode)] if fail_mode else []
    meta = MetaApplication(peripherals=peris)
    import re as _re
    routes = [('/', lambda: Response('root')), ('/fn/<x>', lambda x: Response(x)), ('/obj', _Callable()), ('/meth', _Holder().method),
              # parameters nobody provides, with defaults of every kind (sentinel object, compiled regex, function, bytes, set)
              ('/dflt', lambda flag=_SENTINEL, pat=_re.compile('x+'), cb=len, raw=b'\xff', tags=frozenset(['t']), n=3, s='txt': Response('d')),
              ('/static_m', _Holder.smethod), GET('/ctx', lambda: {'a': 1}, render_basic), ('/files/', StaticApplication(M._ASSET_PATH))]
    mws = [SignedCookieMiddleware(secret_key=MARK + '-KEY')]
    if mount == 0:
        app = Application(routes + [('/_meta/', meta)], resources=resources, middlewares=mws)
        base = '/_meta/'
    elif mount == 1:
        app = Application(routes + [('/deep/prefix/meta', meta)], resources=resources, middlewares=mws)
        base = '/deep/prefix/meta/'
    else:
        mid = Application([('/m/', meta)])
        app = Application(routes + [('/lvl1/', mid)], resources=resources, middlewares=mws)
        base = '/lvl1/m/'
    return app, base


def _forms(s):
    import html, json
    out = {s, html.escape(s), html.escape(s, quote=False), json.dumps(s)[1:-1], repr(s)[1:-1]}
    return [x for x in out if x]


def _meta_page(name_i, val_i, mount, fail_mode, plain_i):
    app, base = _host(name_i, val_i, mount, fail_mode, plain_i)
    cl = app.get_local_client()
    late = 'late_' + SECRET_NAMES[name_i]
    for rnd, url in enumerate((base, base + 'json/', base, base + 'json/')):
        if rnd == 2:
            # the application grows after its meta page has been looked at: a new secret-named resource and a new route
            app.resources[late] = _values()[val_i]
            app.add(('/late', lambda: Response('late')))
        resp = cl.get(url)
        if resp.status_code != 200:
            return False
        body = resp.get_data(True)
        for f in _forms(MARK):
            if f in body:
                return False                       # the secret value, or the cookie signing key, in any escaping
        if SECRET_NAMES[name_i] not in body or 'REDACTED' not in body:
            return False                           # listed with the marker
        if rnd >= 2 and (late not in body or body.count('REDACTED') < 2):
            return False
        if 'PLAINVALUE' not in body:
            return False                           # other resources remain visible
        if (fail_mode == 1 or (fail_mode == 2 and not url.endswith('json/'))) and 'boom' not in body:
            return False                           # a failing section is reported inline
    return True


def ob_meta_page(name_i: int, val_i: int, mount: int, fail_mode: int, plain_i: int) -> bool:
    with untraced():
        return _meta_page(name_i, val_i, mount, fail_mode, plain_i)


def confirm_meta_page(name_i, val_i, mount, fail_mode, plain_i):
    return not _meta_page(name_i, val_i, mount, fail_mode, plain_i)
