"""C16 harnesses: JSONCookie.unserialize / SignedCookieMiddleware.request on symbolic cookie values.

Environment stubs (each a *contract* stub, listed in the evidence):
  hmac(...)            -> object whose digest() is a fixed byte string          (MAC = ideal oracle)
  safe_str_cmp         -> symbolic bool mac_ok                                  ("signature valid" IS mac_ok)
  base64.b64decode     -> returns fixed bytes or raises binascii.Error           (symbolic selector)
  cls.unquote          -> returns a value from a small catalogue or raises UnquoteError
  url_unquote_plus     -> identity (werkzeug URL code is outside CrossHair's reach)
  time()               -> symbolic int now
"""
from typing import List, Tuple
import binascii, json, base64 as _real_b64
import secure_cookie.cookie as sc
import clastic.middleware.cookie as CK
from clastic.middleware.cookie import JSONCookie, SignedCookieMiddleware
from harness.util import R, untraced

ALPHA = '?&="aé'


class _Mac(object):
    def update(self, b):
        pass

    def digest(self):
        return b'M'


class _Env(object):
    def __init__(self, mac_ok, b64_mode, unq_mode, now, exp):
        self.mac_ok, self.b64_mode, self.unq_mode, self.now, self.exp = mac_ok, b64_mode, unq_mode, now, exp

    def __enter__(self):
        self.saved = (sc.hmac, sc.base64, sc.safe_str_cmp, sc.time, sc.url_unquote_plus, JSONCookie.__dict__['unquote'])
        env = self

        class _B64(object):
            @staticmethod
            def b64decode(x):
                if env.b64_mode == 1:
                    raise binascii.Error('Incorrect padding')
                if env.b64_mode == 2:
                    raise TypeError('bad')
                return b'D'
            b64encode = staticmethod(_real_b64.b64encode)

        def unq(cls, v):
            if env.unq_mode == 1:
                raise sc.UnquoteError()
            return 'V'
        sc.hmac = lambda k, m, h: _Mac()
        sc.base64 = _B64
        sc.safe_str_cmp = lambda a, b: True if env.mac_ok else False
        sc.time = lambda: env.now
        sc.url_unquote_plus = lambda s: s
        JSONCookie.unquote = classmethod(unq)
        return self

    def __exit__(self, *a):
        sc.hmac, sc.base64, sc.safe_str_cmp, sc.time, sc.url_unquote_plus, unq = self.saved
        JSONCookie.unquote = unq


def _expected_items(s):
    """what a *valid* cookie string means: part after the first '?', '&'-separated key=value items."""
    s = s.strip('"')
    if '?' not in s:
        return None
    data = s.split('?', 1)[1]
    out = {}
    for item in data.split('&'):
        if '=' not in item:
            return None
        k, v = item.split('=', 1)
        out[k] = 'V'
    return out


def ob_unserialize(s: str, mac_ok: bool, b64_mode: int, unq_mode: int) -> bool:
    """never raises; invalid signature / malformed / undecodable -> empty cookie; valid -> exactly the items."""
    with _Env(mac_ok, b64_mode, unq_mode, 0, 0):
        c = JSONCookie.unserialize(s, b'key')
    if not isinstance(c, JSONCookie):
        return False
    exp = _expected_items(s)
    valid = mac_ok and b64_mode == 0 and unq_mode == 0 and exp is not None and \
        all(ord(ch) < 128 for ch in s)
    if not valid:
        # tampered / arbitrary / wrongly signed: must be empty (non-ASCII keys cannot have been produced by serialize())
        if not mac_ok or b64_mode != 0 or exp is None:
            return len(c) == 0
        return len(c) == 0 or dict(c) == exp
    return dict(c) == exp


def tw_unserialize(s: str, mac_ok: bool, b64_mode: int, unq_mode: int) -> bool:
    with _Env(mac_ok, b64_mode, unq_mode, 0, 0):
        try:
            c = JSONCookie.unserialize(s, b'key')
        except Exception:
            return False
    return len(c) >= 1


def _real_request(cookie_value):
    from clastic import Application
    from werkzeug.wrappers import Response
    from werkzeug.test import EnvironBuilder
    app = Application([('/', lambda cookie: Response('n=%d' % len(cookie)))],
                      middlewares=[SignedCookieMiddleware(secret_key=b'key')])
    env = EnvironBuilder(path='/').get_environ()
    env['HTTP_COOKIE'] = 'clastic_cookie=' + cookie_value.encode('utf-8').decode('latin-1')
    resp = Response.from_app(app, env)
    return resp.status_code == 200 and resp.get_data() == b'n=0'


def confirm_unserialize(s, mac_ok, b64_mode, unq_mode):
    """public API, no stubs: an application with the middleware receives this cookie value (not signed by the
    server: must answer 200 with an empty cookie).  For the stub outcome 'b64decode raises binascii.Error' the
    hash part is replaced by a really malformed base64 text.  A forged *valid* MAC cannot be produced without
    the key, so mac_ok=True candidates that do not fail this way remain unit-level."""
    if not _real_request(s):
        return True
    if b64_mode == 1 and '?' in s and not _real_request('a' + s[s.index('?'):]):
        return True
    return bool(mac_ok)


def ob_expiry(now: int, exp: int, has_exp: bool) -> bool:
    """valid signature: presented iff not expired; '_expires' itself is never presented."""
    saved = JSONCookie.__dict__['unquote']
    with _Env(True, 0, 0, now, exp):
        def unq(cls, v):
            return exp if v == b'E' else 'V'
        JSONCookie.unquote = classmethod(unq)
        s = 'h?k=x&_expires=E' if has_exp else 'h?k=x'
        c = JSONCookie.unserialize(s, b'key')
    if has_exp and now > exp:
        return len(c) == 0
    return dict(c) == {'k': 'V'}


def tw_expiry(now: int, exp: int, has_exp: bool) -> bool:
    with _Env(True, 0, 0, now, exp):
        def unq(cls, v):
            return exp if v == b'E' else 'V'
        JSONCookie.unquote = classmethod(unq)
        c = JSONCookie.unserialize('h?k=x&_expires=E', b'key')
    return len(c) == 0 and has_exp


class _Cookies(object):
    def __init__(self, v):
        self.v = v

    def get(self, k, default=None):
        return self.v


class _Req(object):
    def __init__(self, v):
        self.cookies = _Cookies(v)


class _Resp(object):
    status_code = 200

    def __init__(self):
        self.set = []

    def set_cookie(self, key, value='', **kw):
        self.set.append((key, value, kw))


def ob_middleware(present: bool, s: str, mac_ok: bool, b64_mode: int, expiry_kind: int, now: int, sets: bool) -> bool:
    """the middleware hands next() a cookie object and returns next()'s response itself, for every cookie value."""
    exp = [CK.SESSION, CK.NEVER, 60][expiry_kind]
    mw = SignedCookieMiddleware(secret_key=b'key', expiry=exp)
    resp = _Resp()
    got = []

    def nxt(cookie):
        got.append(cookie)
        if sets:
            cookie['n'] = 1
        return resp
    otime = CK.time.time
    CK.time.time = lambda: now
    try:
        with _Env(mac_ok, b64_mode, 0, now, 0):
            oq = JSONCookie.__dict__['quote']
            JSONCookie.quote = classmethod(lambda cls, v: b'Q')
            try:
                out = mw.request(nxt, _Req(s if present else None))
            finally:
                JSONCookie.quote = oq
    finally:
        CK.time.time = otime
    if out is not resp or len(got) != 1 or not isinstance(got[0], JSONCookie):
        return False
    if sets and not any(k == 'clastic_cookie' for k, v, kw in resp.set):
        return False
    return True


# ---- quote/unquote round trip (real base64 + json: values are realised -> bug hunting for text)
def _val(shape, a, b, flag):
    return [a, [a, b], {'x': a}, None, flag, [flag, None, a], {'k': [a, {'z': b}]}, '', 'text', [], {}][shape]


def ob_roundtrip(shape: int, a: int, b: int, flag: bool) -> bool:
    v = _val(shape, a, b, flag)
    return JSONCookie.unquote(JSONCookie.quote(v)) == v


def ob_serialize_roundtrip(shape: int, a: int, flag: bool) -> bool:
    """full real path, no stubs: what the application stored is what is presented; a flipped byte empties it."""
    v = _val(shape, a, 1, flag)
    c = JSONCookie({'k': v}, b'key')
    ser = c.serialize()
    back = JSONCookie.unserialize(ser.decode('ascii'), b'key')
    other = JSONCookie.unserialize(ser.decode('ascii'), b'other-key')
    tam = ser[:-1] + (b'A' if ser[-1:] != b'A' else b'B')
    t = JSONCookie.unserialize(tam.decode('ascii'), b'key')
    return dict(back) == {'k': v} and len(other) == 0 and len(t) == 0


def _expiry_seq(exp, t1, t2, t3):
    """one genuinely signed cookie (real HMAC/base64/json) presented three times while the clock advances:
    each presentation is judged on its own - shown iff now <= _expires."""
    c = JSONCookie({'user': 'alice'}, b'key')
    c['_expires'] = exp
    ser = c.serialize().decode('ascii')
    o = sc.time
    try:
        now = t1
        for now in (t1, t1 + t2, t1 + t2 + t3):
            sc.time = lambda now=now: now
            got = JSONCookie.unserialize(ser, b'key')
            if now > exp:
                if len(got) != 0:
                    return False
            elif dict(got) != {'user': 'alice'}:
                return False
        return True
    finally:
        sc.time = o


def ob_expiry_seq(exp: int, t1: int, t2: int, t3: int) -> bool:
    exp, t1, t2, t3 = R(exp), R(t1), R(t2), R(t3)
    with untraced():
        return _expiry_seq(exp, t1, t2, t3)


def confirm_expiry_seq(exp, t1, t2, t3):
    return not _expiry_seq(exp, t1, t2, t3)


# ---- histories of several clients through the real middleware (real clock, real jars)
def _history(ops, expiry_kind):
    """ops: ints decoded as client = o % 2, op = o // 2: 0 set key, 1 read, 2 delete key, 3 log out (set_expires(NOW)), 4 clear"""
    from clastic import Application
    from werkzeug.wrappers import Response
    import json as _json
    state = {'op': 1, 'n': 0}

    def ep(cookie):
        op = state['op']
        if op == 0:
            state['n'] += 1
            cookie['k'] = state['n']
        elif op == 2:
            cookie.pop('k', None)
        elif op == 3:
            cookie.set_expires()
        elif op == 4:
            cookie.clear()
        return Response(_json.dumps(dict((k, v) for k, v in cookie.items() if k != '_expires'), sort_keys=True))
    exp = [CK.SESSION, CK.NEVER, 3600][expiry_kind]
    app = Application([('/', ep)], middlewares=[SignedCookieMiddleware(secret_key=b'key', expiry=exp)])
    clients = [app.get_local_client(), app.get_local_client()]
    model = [{}, {}]
    for o in ops:
        c, op = o % 2, o // 2
        state['op'] = op
        resp = clients[c].get('/')
        if resp.status_code != 200:
            return False
        if op == 0:
            model[c]['k'] = state['n']
        elif op == 2:
            model[c].pop('k', None)
        elif op in (3, 4):
            model[c] = {}
        # what the NEXT request of each client sees must be exactly what it stored
        for cc in (0, 1):
            state['op'] = 1
            seen = _json.loads(clients[cc].get('/').get_data(True))
            if seen != model[cc]:
                return False
    return True


def ob_history(o0: int, o1: int, o2: int, expiry_kind: int) -> bool:
    with untraced():
        return _history([o0, o1, o2], expiry_kind)


def confirm_history(o0, o1, o2, expiry_kind):
    return not _history([o0, o1, o2], expiry_kind)


SERVER_KEYS = [b'key', 'text-key', '\u043a\u043b\u044e\u0447', 'cl\u00e9', b'\xff\x00k']
FORGE_KEYS = [b'other', b'????', b'cl?', '???', b'', 'text-ke']


def _foreign_key(sk_i, fk_i):
    """a cookie signed with ANOTHER key is presented to an application: it must see an empty cookie"""
    from clastic import Application
    from werkzeug.wrappers import Response
    from werkzeug.test import EnvironBuilder
    sk, fk = SERVER_KEYS[sk_i], FORGE_KEYS[fk_i]
    forged = JSONCookie({'user': 'admin'}, fk).serialize().decode('ascii')
    app = Application([('/', lambda cookie: Response('user=%s' % cookie.get('user')))], middlewares=[SignedCookieMiddleware(secret_key=sk)])
    env = EnvironBuilder(path='/').get_environ()
    env['HTTP_COOKIE'] = 'clastic_cookie="%s"' % forged.replace('"', '')
    resp = Response.from_app(app, env)
    return resp.status_code == 200 and resp.get_data() == b'user=None'


def ob_foreign_key(sk_i: int, fk_i: int) -> bool:
    with untraced():
        return _foreign_key(sk_i, fk_i)


def confirm_foreign_key(sk_i, fk_i):
    return not _foreign_key(sk_i, fk_i)


# ---- text values whose encoding uses every base64 sextet (62 and 63 included), at every alignment
TEXT_ALPHA = ['?', '>', '~', '\x7f', 'a', ' ', 'é', '"', '\\', '€']


def _text_roundtrip(pad, c1, c2, shape):
    text = 'x' * pad + TEXT_ALPHA[c1] + TEXT_ALPHA[c2]
    v = [text, {'cmp': text}, [text, text + '?'], {text: 1}][shape]
    try:
        if JSONCookie.unquote(JSONCookie.quote(v)) != v:
            return False
    except Exception:
        return False          # a value the application stored does not even decode
    c = JSONCookie({'k': v, 'other': 'kept'}, b'key')
    back = JSONCookie.unserialize(c.serialize().decode('ascii'), b'key')
    return dict(back) == {'k': v, 'other': 'kept'}


def ob_text_roundtrip(pad: int, c1: int, c2: int, shape: int) -> bool:
    with untraced():
        return _text_roundtrip(pad, c1, c2, shape)


def confirm_text_roundtrip(pad, c1, c2, shape):
    """public API: a real application stores the value in one request and reads it back in the next"""
    from clastic import Application
    from werkzeug.wrappers import Response
    from werkzeug.test import Client
    text = 'x' * pad + TEXT_ALPHA[c1] + TEXT_ALPHA[c2]
    v = [text, {'cmp': text}, [text, text + '?'], {text: 1}][shape]

    def store(cookie):
        cookie['k'] = v
        return Response('stored')

    def read(cookie):
        return Response(json.dumps(cookie.get('k', 'MISSING')))
    app = Application([('/store', store), ('/read', read)], middlewares=[SignedCookieMiddleware(secret_key=b'key')])
    cl = Client(app, Response)
    cl.get('/store')
    return json.loads(cl.get('/read').get_data(True)) != v
