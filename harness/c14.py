"""C14 harnesses: static.find_file / StaticApplication.get_file_response / build_file_response / peek_file."""
from typing import List, Tuple
import ast, errno, os, posixpath, tempfile, shutil, atexit, datetime
import clastic.static as ST
from clastic.static import find_file, StaticApplication, build_file_response, is_binary_string
from clastic.errors import HTTPException, NotFound, Forbidden
from clastic import Application
from werkzeug.wrappers import Response, Request, BaseResponse
from werkzeug.test import EnvironBuilder
from harness.util import R, untraced


# ------------------------------------------------------------------ pure-Python normpath model (CPython's own fallback)
def _pure_normpath():
    src = open(posixpath.__file__).read()
    tree = ast.parse(src)
    fn = [n for n in ast.walk(tree) if isinstance(n, ast.FunctionDef) and n.name == 'normpath' and 'new_comps' in ast.dump(n)][0]
    sr = [n for n in ast.walk(tree) if isinstance(n, ast.FunctionDef) and n.name == 'splitroot'][0]

    class _OsShim(object):
        def __getattr__(self, n):
            return getattr(os, n)

        @staticmethod
        def fspath(p):
            return p
    ns = dict(vars(posixpath))
    ns['os'] = _OsShim()
    exec(compile(ast.Module([sr, fn], []), 'posixpath_normpath_model', 'exec'), ns)
    return ns['normpath']


normpath_model = _pure_normpath()


class _PathShim(object):
    def __getattr__(self, n):
        return getattr(os.path, n)
    normpath = staticmethod(normpath_model)


class _OsModel(object):
    def __getattr__(self, n):
        return getattr(os, n)
    path = _PathShim()


def validate_normpath_model(maxlen=6, alphabet='/.a'):
    """the model equals the C implementation on every string over the alphabet up to maxlen"""
    import itertools
    n = 0
    for k in range(maxlen + 1):
        for t in itertools.product(alphabet, repeat=k):
            s = ''.join(t)
            n += 1
            if normpath_model(s) != os.path.normpath(s):
                return n, s
    return n, None


ROOT = '/srv/root'


def ob_confined_sym(path: str) -> bool:
    """symbolic path through find_file with the normpath model and 'every candidate exists': either refused, or
    the normal form of the result lies inside the root and is root + normal form of the request"""
    o_os, o_isfile = ST.os, ST.isfile
    ST.os, ST.isfile = _OsModel(), (lambda p: True)
    try:
        try:
            full = find_file([ROOT], path)
        except ValueError:
            return True
        n = normpath_model(full)
        return n == ROOT or n.startswith(ROOT + '/')
    finally:
        ST.os, ST.isfile = o_os, o_isfile


def tw_confined_sym(path: str) -> bool:
    o_os, o_isfile = ST.os, ST.isfile
    ST.os, ST.isfile = _OsModel(), (lambda p: True)
    try:
        try:
            return find_file([ROOT], path) == ROOT + '/a'
        except ValueError:
            return False
    finally:
        ST.os, ST.isfile = o_os, o_isfile


# ------------------------------------------------------------------ real directory tree (scratch, removed at exit)
_TMP = tempfile.mkdtemp(prefix='verif_c14_')
atexit.register(shutil.rmtree, _TMP, True)
TREE_ROOT = os.path.join(_TMP, 'top', 'root')
ROOT2 = os.path.join(_TMP, 'top', 'root2')
FILES = {'a.txt': b'alpha', 'sub/b.bin': b'\x00\x01\x02\xff', 'sub/deep/c': b'', 'sp ace.txt': b'sp', '..hidden': b'dot',
         'café.txt': 'café'.encode('utf8'), 'noext': b'plain text'}
for rel, data in FILES.items():
    p = os.path.join(TREE_ROOT, rel)
    os.makedirs(os.path.dirname(p), exist_ok=True)
    open(p, 'wb').write(data)
os.makedirs(ROOT2, exist_ok=True)
open(os.path.join(ROOT2, 'a.txt'), 'wb').write(b'second-root-alpha')
open(os.path.join(ROOT2, 'only2.txt'), 'wb').write(b'only in root2')
open(os.path.join(_TMP, 'top', 'secret.txt'), 'wb').write(b'SECRET-ABOVE')
open(os.path.join(_TMP, 'secret2.txt'), 'wb').write(b'SECRET-ABOVE-2')
os.makedirs(os.path.join(_TMP, 'top', 'root_private'), exist_ok=True)
open(os.path.join(_TMP, 'top', 'root_private', 'secret.txt'), 'wb').write(b'SECRET-SIBLING-WITH-ROOT-PREFIX')
SEGS = ['a.txt', 'sub', 'b.bin', 'deep', 'c', '.', '..', '', '...', 'secret.txt', 'top', 'root', 'etc', '..hidden', 'root2', _TMP.strip('/').split('/')[0],
        'secret2.txt', 'sp ace.txt', 'root_private']
NSEG = len(SEGS)
# the 9 segments that matter most, for 3- and 4-segment requests in the quick tier
CORE = [0, 1, 2, 5, 6, 7, 9, 11, 18]
# file names that are not in Unicode normal form C next to their precomposed twins (different content), and a second,
# unrelated static application whose root has other bytes under the same relative names
NAMES2 = ['cafe\u0301.txt', 'caf\u00e9.txt', '\u2126.txt', '\u03a9.txt', 're\u0301p/f.txt', 'r\u00e9p/f.txt', 'a.txt', 'sub/b.bin', 'noext', 'only-here.txt']
for i, rel in enumerate(NAMES2[:6]):
    p = os.path.join(TREE_ROOT, rel)
    os.makedirs(os.path.dirname(p), exist_ok=True)
    open(p, 'wb').write(b'name-%d' % i)
OTHER_ROOT = os.path.join(_TMP, 'other')
os.makedirs(os.path.join(OTHER_ROOT, 'sub'), exist_ok=True)
open(os.path.join(OTHER_ROOT, 'a.txt'), 'wb').write(b'OTHER-alpha')
open(os.path.join(OTHER_ROOT, 'only-here.txt'), 'wb').write(b'OTHER-only')
_STATIC = StaticApplication([TREE_ROOT, ROOT2])
_OTHER = StaticApplication([OTHER_ROOT])
_OTHER_APP = Application([('/o/', _OTHER)])
_APP = Application([('/static/', _STATIC)])
_STRICT = Application([('/s/', _STATIC)], slash_mode='strict')


def _served_ok(rel_segments, resp):
    """a 200 must be the exact bytes of a regular file inside a search directory, at that relative path"""
    body = resp.get_data()
    joined = '/'.join(rel_segments)
    for root in (TREE_ROOT, ROOT2):
        cand = os.path.normpath(os.path.join(root, joined))
        if (cand == root or cand.startswith(root + os.sep)) and os.path.isfile(cand):
            data = open(cand, 'rb').read()
            return body == data and resp.headers.get('Content-Length') == str(len(data)) and bool(resp.headers.get('Last-Modified')) \
                and bool(resp.headers.get('Content-Type'))
    return False


def _request_segments(s0, s1, s2, s3, n, via):
    segs = [SEGS[s0], SEGS[s1], SEGS[s2], SEGS[s3]][:n]
    if via == 0:
        # through the multi-segment converter of the mounted static application (rewrite/redirect tolerant mode)
        url = '/static/' + '/'.join(segs)
        client = _APP.get_local_client()
        resp = client.get(url)
        hops = 0
        while resp.status_code in (301, 302) and hops < 3:
            resp = client.get(resp.headers['Location'])
            hops += 1
        eff = [x for x in segs]
    elif via == 1:
        resp = _STRICT.get_local_client().get('/s/' + '/'.join(segs))
        eff = segs
    else:
        # the endpoint directly with the segment list (what a '*' binding hands over, including '' segments)
        req = Request(EnvironBuilder(path='/').get_environ())
        try:
            resp = _STATIC.get_file_response(segs, req)
        except HTTPException as e:
            resp = e
        eff = segs
    return segs, resp


def _check_request(s0, s1, s2, s3, n, via):
    segs, resp = _request_segments(s0, s1, s2, s3, n, via)
    body = resp.get_data()
    if b'SECRET' in body:
        return False
    if resp.status_code == 200:
        if via == 0:
            # tolerant modes drop empty segments before the endpoint may see them; either reading is inside the roots
            return _served_ok(segs, resp) or _served_ok([x for x in segs if x], resp)
        return _served_ok(segs, resp)
    if resp.status_code in (403, 404):
        # ... and every regular file inside a search directory IS served at its relative path
        joined = '/'.join(segs)
        if via in (1, 2) and segs and not segs[0].startswith('..') and '' not in segs:
            for root in (TREE_ROOT, ROOT2):
                cand = os.path.normpath(os.path.join(root, joined))
                if (cand.startswith(root + os.sep)) and os.path.isfile(cand) and os.path.normpath(joined) == joined:
                    return False
        if isinstance(resp, HTTPException) and via == 2:
            return resp.is_breaking is False
        return True
    return resp.status_code in (301, 302, 304)


def ob_tree0(via: int) -> bool:
    with untraced():
        return _check_request(0, 0, 0, 0, 0, via)


def ob_tree1(via: int, s0: int) -> bool:
    with untraced():
        return _check_request(s0, 0, 0, 0, 1, via)


def ob_tree2(via: int, s0: int, s1: int) -> bool:
    with untraced():
        return _check_request(s0, s1, 0, 0, 2, via)


def ob_tree3(via: int, s0: int, s1: int, s2: int) -> bool:
    with untraced():
        return _check_request(s0, s1, s2, 0, 3, via)


def ob_tree3core(via: int, s0: int, s1: int, s2: int) -> bool:
    with untraced():
        return _check_request(CORE[s0], CORE[s1], CORE[s2], 0, 3, via)


def ob_tree4core(via: int, s0: int, s1: int, s2: int, s3: int) -> bool:
    with untraced():
        return _check_request(CORE[s0], CORE[s1], CORE[s2], CORE[s3], 4, via)


def confirm_tree4core(via, s0, s1, s2, s3):
    return not _check_request(CORE[s0], CORE[s1], CORE[s2], CORE[s3], 4, via)


def confirm_tree3core(via, s0, s1, s2):
    return not _check_request(CORE[s0], CORE[s1], CORE[s2], 0, 3, via)


def ob_tree4(via: int, s0: int, s1: int, s2: int, s3: int) -> bool:
    with untraced():
        return _check_request(s0, s1, s2, s3, 4, via)


def confirm_tree0(via):
    return not _check_request(0, 0, 0, 0, 0, via)


def confirm_tree1(via, s0):
    return not _check_request(s0, 0, 0, 0, 1, via)


def confirm_tree2(via, s0, s1):
    return not _check_request(s0, s1, 0, 0, 2, via)


def confirm_tree3(via, s0, s1, s2):
    return not _check_request(s0, s1, s2, 0, 3, via)


def confirm_tree4(via, s0, s1, s2, s3):
    return not _check_request(s0, s1, s2, s3, 4, via)


# ------------------------------------------------------------------ fault injection at every filesystem call
class _Faulty(object):
    """replaces isfile/getmtime/getsize/open/read/seek/tell seen by clastic.static; the k-th call fails"""
    ERRS = [(OSError, errno.ENOENT), (OSError, errno.EACCES), (OSError, errno.EIO), (OSError, errno.EISDIR), (ValueError, 0)]

    def __init__(self, fail_at, err_i, vanish):
        self.n, self.fail_at, self.err_i, self.vanish = 0, fail_at, err_i, vanish
        self.calls = []

    def tick(self, name):
        self.calls.append(name)
        k = self.n
        self.n += 1
        if k == self.fail_at:
            cls, no = self.ERRS[self.err_i]
            if cls is OSError:
                raise OSError(no, os.strerror(no))
            raise cls('injected')

    def isfile(self, p):
        try:
            self.tick('isfile')
        except (OSError, ValueError):
            return False            # contract of os.path.isfile: never raises for OS errors, answers False
        if self.vanish and self.calls.count('isfile') >= 2:
            return False            # the file vanishes between lookup and open
        return os.path.isfile(p)

    def getmtime(self, p):
        self.tick('getmtime')
        return os.path.getmtime(p)

    def getsize(self, p):
        self.tick('getsize')
        return os.path.getsize(p)

    def open(self, p, mode='r'):
        self.tick('open')
        return _FaultyFile(self, open(p, mode))


class _FaultyFile(object):
    def __init__(self, f, real):
        self.f, self.real = f, real

    def read(self, n=-1):
        self.f.tick('read')
        return self.real.read(n)

    def seek(self, pos):
        self.f.tick('seek')
        return self.real.seek(pos)

    def tell(self):
        self.f.tick('tell')
        return self.real.tell()

    def close(self):
        self.real.close()

    def __iter__(self):
        return iter(self.real)


def _with_faults(file_i, fail_at, err_i, vanish, ims):
    rel = ['a.txt', 'noext', 'sub/b.bin', 'missing.txt'][file_i]
    f = _Faulty(fail_at, err_i, vanish)

    class _P(object):
        def __getattr__(self, n):
            return getattr(os.path, n)
        getmtime = staticmethod(f.getmtime)
        getsize = staticmethod(f.getsize)

    class _O(object):
        def __getattr__(self, n):
            return getattr(os, n)
        path = _P()
    saved = (ST.os, ST.isfile, getattr(ST, 'open', None))
    ST.os, ST.isfile, ST.open = _O(), f.isfile, f.open
    try:
        hdrs = {}
        if ims:
            hdrs['If-Modified-Since'] = 'Sat, 01 Jan 2000 00:00:00 GMT'
        req = Request(EnvironBuilder(path='/', headers=hdrs).get_environ())
        try:
            resp = _STATIC.get_file_response(rel.split('/'), req)
        except HTTPException as e:
            return e.status_code in (403, 404) and e.is_breaking is False, f.calls
        except Exception as e:       # noqa
            return False, f.calls
        ok = isinstance(resp, BaseResponse) and resp.status_code in (200, 304)
        return ok, f.calls
    finally:
        ST.os, ST.isfile = saved[0], saved[1]
        if saved[2] is None:
            del ST.open
        else:
            ST.open = saved[2]


def ob_faults(file_i: int, fail_at: int, err_i: int, vanish: bool, ims: bool) -> bool:
    """whatever filesystem call fails while serving (or the file vanishes between lookup and open): a Response or a
    NON-BREAKING 403/404 - never another exception (which would become a 500)"""
    with untraced():
        return _with_faults(file_i, fail_at - 1, err_i, vanish, ims)[0]


def tw_faults(file_i: int, fail_at: int, err_i: int, vanish: bool, ims: bool) -> bool:
    with untraced():
        ok, calls = _with_faults(file_i, fail_at - 1, err_i, vanish, ims)
        return ok and 'tell' in calls and fail_at - 1 >= 0 and fail_at - 1 < len(calls)


def confirm_faults(file_i, fail_at, err_i, vanish, ims):
    return not _with_faults(file_i, fail_at - 1, err_i, vanish, ims)[0]


# ------------------------------------------------------------------ conditional requests
def _conditional(mt, ims_rel, timeout_i):
    """mtime mt (whole seconds), If-Modified-Since = mtime + ims_rel"""
    path = os.path.join(TREE_ROOT, 'a.txt')
    base = 1500000000
    os.utime(path, (base + mt, base + mt))
    try:
        ims = datetime.datetime.utcfromtimestamp(base + mt + ims_rel)
        cache_timeout = [360, 1, 0][timeout_i]
        resp = build_file_response(path, cache_timeout=cache_timeout, cached_modify_time=ims)
        if timeout_i == 2:
            return resp.status_code == 200           # client caching disabled: always the file
        if ims_rel >= 0:
            return resp.status_code == 304 and resp.get_data() == b''
        return resp.status_code == 200 and resp.headers.get('Content-Length') == '5'
    finally:
        pass


def ob_conditional(mt: int, ims_rel: int, timeout_i: int) -> bool:
    with untraced():
        return _conditional(mt, ims_rel - 2, timeout_i)


def _conditional_roundtrip(file_i):
    """a conditional request carrying exactly the Last-Modified value the server sent -> 304 without a body"""
    rel = ['a.txt', 'noext', 'sub/b.bin', 'sp ace.txt'][file_i]
    cl = _APP.get_local_client()
    r1 = cl.get('/static/' + rel)
    if r1.status_code != 200 or not r1.headers.get('Last-Modified'):
        return False
    r2 = cl.get('/static/' + rel, headers={'If-Modified-Since': r1.headers['Last-Modified']})
    return r2.status_code == 304 and r2.get_data() == b''


def ob_roundtrip(file_i: int) -> bool:
    with untraced():
        return _conditional_roundtrip(file_i)


# ------------------------------------------------------------------ text/binary default
def ob_binary(b0: int, b1: int) -> bool:
    """is_binary_string on short byte strings: binary iff some byte is outside the printable table"""
    with untraced():
        data = bytes(([] if b0 == 256 else [b0]) + ([] if b1 == 8 else [(b1 * 37 + 5) % 256]))
        printable = set([7, 8, 9, 10, 12, 13, 27] + list(range(32, 256)))
        return is_binary_string(data) == any(x not in printable for x in data)


# ------------------------------------------------------------------ every file at its own path, byte for byte; applications do not share lookups
def _expect(roots, rel):
    for root in roots:
        cand = os.path.join(root, rel)
        if os.path.isfile(cand):
            return open(cand, 'rb').read()
    return None


def _faithful(name_i, order, via):
    """the same relative name is requested from two unrelated static applications (in either order, twice): each answers
    from its OWN search directories only - the exact bytes of its own file, or 404"""
    from werkzeug.urls import url_quote
    rel = NAMES2[name_i]
    plan = [(_APP, '/static/', _STATIC, [TREE_ROOT, ROOT2]), (_OTHER_APP, '/o/', _OTHER, [OTHER_ROOT])]
    if order:
        plan.reverse()
    for app, prefix, static, roots in plan + plan:
        want = _expect(roots, rel)
        if via == 0:
            resp = app.get_local_client().get(prefix + url_quote(rel, safe='/'))
        else:
            try:
                resp = static.get_file_response(rel.split('/'), Request(EnvironBuilder(path='/').get_environ()))
            except HTTPException as e:
                resp = e
        if want is None:
            if resp.status_code != 404:
                return False
        elif resp.status_code != 200 or resp.get_data() != want:
            return False
    return True


def ob_faithful(name_i: int, order: int, via: int) -> bool:
    with untraced():
        return _faithful(name_i, order, via)


def confirm_faithful(name_i, order, via):
    return not _faithful(name_i, order, via)
