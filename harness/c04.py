"""C04 E1 harness: misuse that reaches the chain through a render factory or through non-unique middlewares."""
from clastic import Application, Route
from clastic.application import SubApplication
from clastic.middleware import Middleware
from werkzeug.wrappers import Response
from harness.util import R, untraced


def _factory(kind):
    def factory(arg):
        if kind == 0:
            return lambda context: Response('ok')
        if kind == 1:
            return lambda next, context: Response('bad: takes next')
        if kind == 2:
            return lambda context, next=None: Response('bad: takes next (defaulted)')
        return lambda context, request: Response('ok2')
    return factory


def _factory_misuse(kind, how):
    """a render function produced by a render factory is a render function: taking `next` is rejected at construction"""
    bad = kind in (1, 2)
    try:
        if how == 0:
            Application([('/', lambda: {}, 'tmpl')], render_factory=_factory(kind))
        elif how == 1:
            app = Application([], render_factory=_factory(kind))
            app.add(('/x', lambda: {}, 'tmpl'))
        else:
            inner = Application([('/', lambda: {}, 'tmpl')], render_factory=_factory(0))
            Application([SubApplication('/p', inner, rebind_render=True)], render_factory=_factory(kind))
    except NameError:
        return bad
    return not bad


def ob_factory_misuse(kind: int, how: int) -> bool:
    with untraced():
        return _factory_misuse(kind, how)


def confirm_factory_misuse(kind, how):
    return not _factory_misuse(kind, how)


class Multi(Middleware):
    unique = False

    def __init__(self, names):
        self.provides = tuple(names)

    def request(self, next):
        return next(**dict((n, 'v') for n in self.provides))


class UniqueP(Middleware):
    provides = ('u',)

    def request(self, next):
        return next(u='u')


def _nonunique_conflict(level_a, level_b, same_name, cls_i):
    """two middleware instances offering the same name are a conflict wherever they sit - also two instances of one
    non-unique type at different levels"""
    names_a = ['k']
    names_b = ['k'] if same_name else ['other']
    mk = (lambda names: Multi(names))
    a, b = mk(names_a), mk(names_b)
    lists = {0: [], 1: [], 2: []}          # 0 outer application, 1 embedded application, 2 route
    lists[level_a].append(a)
    lists[level_b].append(b)
    try:
        route = Route('/x', lambda: Response('x'), middlewares=lists[2])
        inner = Application([route], middlewares=lists[1])
        Application([('/p', inner)], middlewares=lists[0])
    except NameError:
        return bool(same_name)
    return not same_name


def ob_nonunique_conflict(level_a: int, level_b: int, same_name: bool, cls_i: int) -> bool:
    with untraced():
        return _nonunique_conflict(level_a, level_b, same_name, cls_i)


def confirm_nonunique_conflict(level_a, level_b, same_name, cls_i):
    return not _nonunique_conflict(level_a, level_b, same_name, cls_i)
