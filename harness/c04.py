"""C04 E1 harness: misuse that reaches the chain through a render factory or through non-unique middlewares."""
from clastic import Application, Route
from clastic.application import SubApplication
from clastic.middleware import Middleware
from werkzeug.wrappers import Response
from harness.util import R, untraced


def _factory(kind):
    def factory(arg):
        if kind == 0:
            return lambda context: Response('ok')
        if kind == 1:
            return lambda next, context: Response('bad: takes next')
        if kind == 2:
            return lambda context, next=None: Response('bad: takes next (defaulted)')
        return lambda context, request: Response('ok2')
    return factory


def _factory_misuse(kind, how):
    """a render function produced by a render factory is a render function: taking `next` is rejected at construction"""
    bad = kind in (1, 2)
    try:
        if how == 0:
            Application([('/', lambda: {}, 'tmpl')], render_factory=_factory(kind))
        elif how == 1:
            app = Application([], render_factory=_factory(kind))
            app.add(('/x', lambda: {}, 'tmpl'))
        else:
            inner = Application([('/', lambda: {}, 'tmpl')], render_factory=_factory(0))
            Application([SubApplication('/p', inner, rebind_render=True)], render_factory=_factory(kind))
    except NameError:
        return bad
    return not bad


def ob_factory_misuse(kind: int, how: int) -> bool:
    with untraced():
        return _factory_misuse(kind, how)


def confirm_factory_misuse(kind, how):
    return not _factory_misuse(kind, how)


class Multi(Middleware):
    unique = False

    def __init__(self, names):
        self.provides = tuple(names)

    def request(self, next):
        return next(**dict((n, 'v') for n in self.provides))


class UniqueP(Middleware):
    provides = ('u',)

    def request(self, next):
        return next(u='u')


def _nonunique_conflict(level_a, level_b, same_name, cls_i):
    """two middleware instances offering the same name are a conflict wherever they sit - also two instances of one
    non-unique type at different levels"""
    names_a = ['k']
    names_b = ['k'] if same_name else ['other']
    mk = (lambda names: Multi(names))
    a, b = mk(names_a), mk(names_b)
    lists = {0: [], 1: [], 2: []}          # 0 outer application, 1 embedded application, 2 route
    lists[level_a].append(a)
    lists[level_b].append(b)
    try:
        route = Route('/x', lambda: Response('x'), middlewares=lists[2])
        inner = Application([route], middlewares=lists[1])
        Application([('/p', inner)], middlewares=lists[0])
    except NameError:
        return bool(same_name)
    return not same_name


def ob_nonunique_conflict(level_a: int, level_b: int, same_name: bool, cls_i: int) -> bool:
    with untraced():
        return _nonunique_conflict(level_a, level_b, same_name, cls_i)


def confirm_nonunique_conflict(level_a, level_b, same_name, cls_i):
    return not _nonunique_conflict(level_a, level_b, same_name, cls_i)


# ------------------------------------------------------------------ conflicts that only exist after embedding
def _mk_mw(i, phase, name):
    """a fresh unique middleware type offering `name` in the given phase (0 request, 1 endpoint, 2 render)"""
    attrs = {}
    if phase == 0:
        attrs['provides'] = (name,)
        attrs['request'] = lambda self, next: next(**{name: 'mw%d' % i})
    elif phase == 1:
        attrs['endpoint_provides'] = (name,)
        attrs['endpoint'] = lambda self, next: next(**{name: 'mw%d' % i})
    else:
        attrs['render_provides'] = (name,)
        attrs['render'] = lambda self, next: next(**{name: 'mw%d' % i})
    return type('Src%d_%d' % (i, phase), (Middleware,), attrs)()


NSRC = 12
_RES_KINDS = (0, 5, 10)
_URL_KINDS = (4, 11)


def _embedded_conflict(a, b, same_name, depth2):
    """sources: 0 outer resource, 1-3 outer middleware (request/endpoint/render provides), 4 URL binding in the embedding
    prefix, 5 inner application resource, 6-8 inner application middleware, 9 inner route middleware, 10 inner route
    resource, 11 URL binding of the inner route.  Two different sources offering one name is a NameError wherever they
    sit; resources of different levels are ONE source (they override), as are different names."""
    if a == b or (a in _URL_KINDS and b in _URL_KINDS):
        return True
    names = {a: 'k', b: 'k' if same_name else 'other'}
    outer_res, inner_res, route_res = {}, {}, {}
    outer_mws, inner_mws, route_mws = [], [], []
    prefix, patt = '/p', '/x'
    for i, src in enumerate((a, b)):
        n = names[src]
        if src == 0:
            outer_res[n] = 'outer'
        elif src in (1, 2, 3):
            outer_mws.append(_mk_mw(i, src - 1, n))
        elif src == 4:
            prefix = '/p/<%s>' % n
        elif src == 5:
            inner_res[n] = 'inner'
        elif src in (6, 7, 8):
            inner_mws.append(_mk_mw(i, src - 6, n))
        elif src == 9:
            route_mws.append(_mk_mw(i, 0, n))
        elif src == 10:
            route_res[n] = 'route'
        else:
            patt = '/x/<%s>' % n
    expect_conflict = bool(same_name) and not (a in _RES_KINDS and b in _RES_KINDS)
    try:
        route = Route(patt, lambda: Response('x'), middlewares=route_mws, resources=route_res)
        inner = Application([route], middlewares=inner_mws, resources=inner_res)
        if depth2:
            inner = Application([('/mid', inner)])
        Application([(prefix, inner)], middlewares=outer_mws, resources=outer_res)
    except NameError:
        return expect_conflict
    return not expect_conflict


def ob_embedded_conflict(a: int, b: int, same_name: bool, depth2: bool) -> bool:
    with untraced():
        return _embedded_conflict(a, b, same_name, depth2)


def confirm_embedded_conflict(a, b, same_name, depth2):
    return not _embedded_conflict(a, b, same_name, depth2)


# ------------------------------------------------------------------ hooks set per INSTANCE (as ContextProcessor does)
def _mk_instance_hooks():
    class InstanceHooks(Middleware):
        """one class, hook functions chosen per instance"""
        def __init__(self, phase, bad):
            if bad == 0:
                fn = lambda next: next()
            elif bad == 1:
                fn = lambda request, next: next()          # `next` is not the first parameter
            else:
                fn = lambda request: Response('no next at all')
            setattr(self, ('request', 'endpoint', 'render')[phase], fn)
    return InstanceHooks


def _instance_hooks(ngood, phase, bad, level):
    """after `ngood` well-formed instances of the class have been accepted (other applications), an instance whose hook
    does not take `next` first is still rejected with TypeError - at application, embedded-application or route level.
    The class is fresh per case, so a case never depends on what earlier cases left behind in the process."""
    InstanceHooks = _mk_instance_hooks()
    for i in range(ngood):
        Application([('/g%d' % i, lambda: Response('g'))], middlewares=[InstanceHooks(i % 3, 0)])
    mw = InstanceHooks(phase, bad)
    try:
        if level == 0:
            Application([('/', lambda: Response('x'))], middlewares=[mw])
        elif level == 1:
            Application([Route('/', lambda: Response('x'), middlewares=[mw])])
        else:
            inner = Application([('/', lambda: Response('x'))])
            Application([('/p', inner)], middlewares=[mw])
    except TypeError:
        return bad != 0
    return bad == 0


def ob_instance_hooks(ngood: int, phase: int, bad: int, level: int) -> bool:
    with untraced():
        return _instance_hooks(ngood, phase, bad, level)


def confirm_instance_hooks(ngood, phase, bad, level):
    return not _instance_hooks(ngood, phase, bad, level)
