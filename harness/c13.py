"""C13 harnesses (clastic-side clauses): WSGI wrapper order, _dispatch_wsgi, RerouteWSGI, check_valid_wsgi."""
from typing import List
from clastic.application import Application, RerouteWSGI, check_valid_wsgi, SubApplication
from clastic.route import Route
from clastic.middleware import Middleware
from werkzeug.wrappers import Response, BaseResponse, Request
from werkzeug.test import EnvironBuilder, run_wsgi_app
from harness.util import R, untraced

LOG = []
SEH = [False]


def _wrapper_for(tag_holder):
    def wsgi_wrapper(inner):
        def wrapped(environ, start_response):
            LOG.append(tag_holder.tag)
            return inner(environ, start_response)
        return wrapped
    return wsgi_wrapper


def _mk(name, unique=True, wraps=True):
    def __init__(self):
        self.tag = name
        if wraps:
            self.wsgi_wrapper = _wrapper_for(self)
    return type(name, (Middleware,), {'unique': unique, '__init__': __init__})


W1, W2, W3 = _mk('W1'), _mk('W2'), _mk('W3')
NW = _mk('NW', wraps=False)
W1S = type('W1S', (W1,), {})          # a subclass is a type of its own: its wrapper is applied as well
CLASSES = [W1, W2, W3, NW, W1S]
NC = len(CLASSES)
LISTS = [[]] + [[i] for i in range(NC)] + [[i, j] for i in range(NC) for j in range(NC) if i != j] + [[0, 1, 0], [2, 2]]
NLISTS = len(LISTS)


def _inst(idx, level):
    out = []
    for k, i in enumerate(idx):
        m = CLASSES[i]()
        m.tag = '%s@%s%d' % (CLASSES[i].__name__, level, k)
        out.append(m)
    return out


def _wrapper_order(outer_i, emb_i, nroutes, with_emb):
    """with_emb: 0 no embedded application, 1 one, 2 two sibling embedded applications (each with its own instances)"""
    del LOG[:]
    outer = _inst(LISTS[outer_i], 'o')
    embs = [_inst(LISTS[emb_i], 'e%d' % k) for k in range(with_emb)]
    routes = [Route('/r%d' % i, lambda: Response('ok')) for i in range(nroutes)]
    for k, emb in enumerate(embs):
        sub = Application([Route('/s', lambda: Response('sub'))], middlewares=emb)
        routes.append(('/emb%d' % k, sub))
    app = Application(routes, middlewares=outer)
    if SEH[0]:
        from clastic.errors import ErrorHandler
        app.set_error_handler(ErrorHandler())         # documented: may be called after construction
    env = EnvironBuilder(path='/r0' if nroutes else ('/emb0/s' if with_emb else '/nothing')).get_environ()
    run_wsgi_app(app, env)
    # the embedding application's wrappers first, in list order, a unique type once ...
    first = []
    for m in outer:
        if not any(type(x) is type(m) for x in first):
            first.append(m)
    want_outer = [m.tag for m in first if hasattr(m, 'wsgi_wrapper')]
    if LOG[:len(want_outer)] != want_outer:
        return False
    # ... then the embedded applications': each remaining wrapping type exactly once, in its list order
    rest = LOG[len(want_outer):]
    types_rest = [t.split('@')[0] for t in rest]
    want_types = []
    for emb in embs[:1]:
        for m in emb:
            nm = type(m).__name__
            if hasattr(m, 'wsgi_wrapper') and nm not in want_types and not any(type(x) is type(m) for x in first):
                want_types.append(nm)
    return types_rest == want_types


def ob_wrapper_order(outer_i: int, emb_i: int, nroutes: int, with_emb: int, seh: bool = False) -> bool:
    with untraced():
        SEH[0] = bool(seh)
        return _wrapper_order(outer_i, emb_i, nroutes, with_emb)


def tw_wrapper_order(outer_i: int, emb_i: int, nroutes: int, with_emb: int, seh: bool = False) -> bool:
    with untraced():
        SEH[0] = bool(seh)
        return _wrapper_order(outer_i, emb_i, nroutes, with_emb) and len(LOG) >= 3


def confirm_wrapper_order(outer_i, emb_i, nroutes, with_emb, seh=False):
    SEH[0] = bool(seh)
    return not _wrapper_order(outer_i, emb_i, nroutes, with_emb)


# ------------------------------------------------------------------ _dispatch_wsgi / RerouteWSGI
class _RecResponse(BaseResponse):
    calls = []
    SENT = ['sentinel-iterable']

    def __call__(self, environ, start_response):
        _RecResponse.calls.append((environ, start_response))
        return _RecResponse.SENT


STATUSES = ['200 OK', '404 NOT FOUND', '302 FOUND', '599 WEIRD']
HEADERS = [[], [('X-A', '1')], [('Content-Type', 'text/x'), ('X-B', 'two words')]]
BODIES = [[], [b''], [b'abc'], [b'a', b'', b'bc']]


class _Target(object):
    def __init__(self, si, hi, bi):
        self.si, self.hi, self.bi = si, hi, bi
        self.seen = []

    def __call__(self, environ, start_response):
        self.seen.append((environ, dict(environ)))
        start_response(STATUSES[self.si], list(HEADERS[self.hi]))
        return BODIES[self.bi]


# (route pattern, slash mode, requested path): exact; branch pattern reached without its slash / through repeated slashes in rewrite mode; strict
PATH_VARIANTS = [('/x', 'redirect', '/x'), ('/x/', 'rewrite', '/x'), ('/x/', 'rewrite', '//x///'), ('/x/', 'strict', '/x/'), ('/x', 'rewrite', '/x/')]


def _reroute(how, si, hi, bi, extra_env, pv=0):
    target = _Target(si, hi, bi)
    patt, mode, path = PATH_VARIANTS[pv]
    if how == 0:
        routes = [Route(patt, RerouteWSGI(target))]                 # used as the endpoint
        mws = []
    elif how == 1:
        def ep():
            raise RerouteWSGI(target)                              # raised by the endpoint
        routes, mws = [Route(patt, ep)], []
    elif how == 2:
        class RaiseMW(Middleware):
            def request(self, next):
                raise RerouteWSGI(target)                          # raised by a middleware
        routes, mws = [Route(patt, lambda: Response('never'))], [RaiseMW()]
    else:
        def rn(context):
            raise RerouteWSGI(target)                              # raised by the render function
        routes, mws = [Route(patt, lambda: {'a': 1}, rn)], []
    app = Application(routes, middlewares=mws, slash_mode=mode)
    env = EnvironBuilder(path=path, headers={'X-Custom': 'v'}).get_environ()
    for i in range(extra_env):
        env['verif.extra%d' % i] = object()
    before = dict(env)
    got = {}

    def start_response(status, headers, exc_info=None):
        got['status'], got['headers'] = status, headers
        return lambda b: None
    out = app(env, start_response)
    if len(target.seen) != 1:
        return False
    seen_env, seen_copy = target.seen[0]
    if seen_env is not env:
        return False                      # the request's own environ, not a copy
    for k, v in before.items():
        if k not in seen_copy or seen_copy[k] is not v and seen_copy[k] != v:
            return False                  # every original entry intact
    return got.get('status') == STATUSES[si] and got.get('headers') == HEADERS[hi] and out is BODIES[bi]


def ob_reroute(how: int, si: int, hi: int, bi: int, extra_env: int, pv: int = 0) -> bool:
    with untraced():
        return _reroute(how, si, hi, bi, extra_env, pv)


def confirm_reroute(how, si, hi, bi, extra_env, pv=0):
    return not _reroute(how, si, hi, bi, extra_env, pv)


def _dispatch_once(kind):
    _RecResponse.calls = []
    if kind == 0:
        app = Application([Route('/x', lambda: _RecResponse('x'))])
    elif kind == 1:
        app = Application([Route('/x', lambda: {'c': 1}, lambda context: _RecResponse('y'))])
    else:
        class MW(Middleware):
            def request(self, next):
                return _RecResponse('early')
        app = Application([Route('/x', lambda: Response('n'))], middlewares=[MW()])
    env = EnvironBuilder(path='/x').get_environ()
    sr = lambda *a, **k: None
    out = app(env, sr)
    return out is _RecResponse.SENT and len(_RecResponse.calls) == 1 and _RecResponse.calls[0][0] is env and _RecResponse.calls[0][1] is sr


def ob_dispatch_once(kind: int) -> bool:
    with untraced():
        return _dispatch_once(kind)


# ------------------------------------------------------------------ check_valid_wsgi
def _sigs():
    def ok(environ, start_response): pass
    def ok_extra(environ, start_response, extra=1): pass
    def renamed(env, start_response): pass
    def swapped(start_response, environ): pass
    def one(environ): pass
    def none(): pass

    class Obj(object):
        def __call__(self, environ, start_response): pass

    class BadObj(object):
        def __call__(self, a, b): pass

    class Meth(object):
        def m(self, environ, start_response): pass
    return [(ok, True), (ok_extra, True), (renamed, False), (swapped, False), (one, False), (none, False), (Obj(), True), (BadObj(), False),
            (Meth().m, True), ('not callable', False), (None, False), (Application([]), True)]


def ob_valid_wsgi(i: int, as_wrapper: bool) -> bool:
    with untraced():
        f, want = _sigs()[i]
        if not as_wrapper:
            try:
                check_valid_wsgi(f)
                return want
            except TypeError:
                return not want
        # the same rule applied to what a middleware's wsgi_wrapper returns
        class MW(Middleware):
            wsgi_wrapper = staticmethod(lambda inner: f)
        try:
            Application([Route('/', lambda: Response('x'))], middlewares=[MW()])
            return want
        except TypeError:
            return not want


def wsgi_validator_sweep():
    """validation leg (run-time monitor, not a solver claim): wsgiref.validate over a scenario application"""
    from wsgiref.validate import validator
    from clastic import render_basic, GET
    from clastic.errors import NotFound
    from clastic.middleware.compress import GzipMiddleware
    import warnings

    def boom():
        raise ValueError('x')
    app = Application([Route('/resp', lambda: Response('body')), Route('/ctx', lambda: {'a': 1}, render_basic),
                       Route('/nf', lambda: NotFound()), Route('/boom', boom), GET('/g/', lambda: Response('g'))], middlewares=[GzipMiddleware()])
    n = 0
    bad = []
    with warnings.catch_warnings():
        warnings.simplefilter('ignore')
        for path in ('/resp', '/ctx', '/nf', '/boom', '/g', '/g/', '/none'):
            for method in ('GET', 'HEAD', 'POST', 'OPTIONS'):
                env = EnvironBuilder(path=path, method=method, headers={'Accept-Encoding': 'gzip'}).get_environ()
                state = {'n': 0}

                def sr(status, headers, exc_info=None):
                    state['n'] += 1
                    return lambda b: None
                try:
                    it = validator(app)(env, sr)
                    body = b''.join(it)
                    it.close()
                    n += 1
                    if state['n'] != 1 or (method == 'HEAD' and body):
                        bad.append((path, method, 'start_response calls %d, HEAD body %r' % (state['n'], body[:20])))
                except Exception as e:     # noqa
                    bad.append((path, method, repr(e)[:200]))
    return n, bad


# ------------------------------------------------------------------ close() releases every file that was opened
def _files_released(file_i, ims_rel, method_i, via_route):
    import clastic.static as ST
    from clastic.static import StaticApplication, StaticFileRoute
    import tempfile, os, shutil, email.utils
    d = tempfile.mkdtemp(prefix='verif_c13_')
    opened = []
    try:
        name = ['a.txt', 'noext', 'b.bin', 'empty.txt', 'emptynoext'][file_i]
        path = os.path.join(d, name)
        open(path, 'wb').write(b'hello\x00' if file_i == 2 else (b'' if file_i >= 3 else b'hello'))
        os.utime(path, (1500000000, 1500000000))
        if via_route:
            app = Application([StaticFileRoute('/f', path)])
            url = '/f'
        else:
            app = Application([('/static/', StaticApplication(d))])
            url = '/static/' + name
        real_open = open

        def tracking_open(p, mode='r', *a, **k):
            f = real_open(p, mode, *a, **k)
            opened.append(f)
            return f
        hdrs = {}
        if ims_rel is not None:
            hdrs['If-Modified-Since'] = email.utils.formatdate(1500000000 + ims_rel, usegmt=True)
        env = EnvironBuilder(path=url, method=['GET', 'HEAD'][method_i], headers=hdrs).get_environ()
        ST.open = tracking_open
        try:
            app_iter, status, headers = run_wsgi_app(app, env)
            body = b''.join(app_iter)
            if hasattr(app_iter, 'close'):
                app_iter.close()
        finally:
            del ST.open
        return all(f.closed for f in opened) and status[:3] in ('200', '304')
    finally:
        shutil.rmtree(d, True)


def ob_files_released(file_i: int, ims_sel: int, method_i: int, via_route: bool) -> bool:
    """static responses: whatever the outcome (200, 304, HEAD), close() of the returned iterable leaves no opened file open"""
    with untraced():
        return _files_released(file_i, [None, -10, 0, 10][ims_sel], method_i, via_route)


def confirm_files_released(file_i, ims_sel, method_i, via_route):
    return not _files_released(file_i, [None, -10, 0, 10][ims_sel], method_i, via_route)
