"""C20 harnesses: flaw.create_app parse-or-fallback, get_flaw_info, _ParsedTB.from_string, ashes escaping."""
from typing import List, Tuple, Optional
import clastic.flaw as F
import ashes

KEYS = ('mon_files', 'all_mon_files', 'parsed_err', 'last_line', 'tb_str')
ENTS = ('&amp;', '&lt;', '&gt;', '&quot;', '&#x27;')


class _RecApp(object):
    def __init__(self, routes, resources=None, **kw):
        self.routes, self.resources, self.kw = routes, resources, kw


class _Arf(object):
    def register_source(self, name, src):
        self.name, self.src = name, src


try:
    from crosshair import realize as _realize
except Exception:                                   # pragma: no cover
    def _realize(x):
        return x


class _RealisingRe(object):
    """CrossHair 0.0.110 models Match.groupdict() on symbolic text unsoundly (returns spans).  The frame lines the
    two module-level regexes see are constant in these harnesses, so their input is realised (a one-value fork):
    a change of representation only, the real compiled pattern does the matching."""
    def __init__(self, rx):
        self.rx = rx

    def match(self, line):
        return self.rx.match(_realize(line))


class _RealRe(object):
    def __enter__(self):
        self.o = (F._frame_re, F._se_frame_re)
        F._frame_re, F._se_frame_re = _RealisingRe(F._frame_re), _RealisingRe(F._se_frame_re)

    def __exit__(self, *a):
        F._frame_re, F._se_frame_re = self.o


class _Patched(object):
    def __enter__(self):
        self.o = (F.Application, F.AshesRenderFactory, F.StaticApplication, F._frame_re, F._se_frame_re)
        F.Application, F.AshesRenderFactory, F.StaticApplication = _RecApp, _Arf, (lambda p: 'static')
        F._frame_re, F._se_frame_re = _RealisingRe(F._frame_re), _RealisingRe(F._se_frame_re)

    def __exit__(self, *a):
        F.Application, F.AshesRenderFactory, F.StaticApplication, F._frame_re, F._se_frame_re = self.o


def _tb_value(kind, text):
    if kind == 0:
        return text
    if kind == 1:
        return None
    if kind == 2:
        # bytes: CrossHair realises str.encode/bytes.decode on unrestricted text, so a concrete catalogue by length
        return [b'', b'\xff\xfe<', b'ValueError: <x>', _STD_HEAD.encode('ascii') + b'KeyError: 1'][len(text) % 4]
    if kind == 3:
        return 12345
    return ''


def _files_value(kind, f1, f2):
    return [None, [], [f1], [f1, f2], [f2, f1, f1]][kind]


def ob_total(tb_kind: int, text: str, files_kind: int, f1: str, f2: str) -> bool:
    """create_app never raises; resources carry the text and file names unchanged; get_flaw_info yields its five keys."""
    tb = _tb_value(tb_kind, text)
    files = _files_value(files_kind, f1, f2)
    before = None if files is None else sorted(files)
    with _Patched():
        app = F.create_app(tb, files)
    res = app.resources
    if res['tb_str'] is not tb and res['tb_str'] != tb:
        return False
    if not isinstance(res['parsed_error'], dict):
        return False
    amf = res['all_mon_files']
    if before is None:
        if amf is not None:
            return False
    elif sorted(amf) != before:
        return False
    info = F.get_flaw_info(**res)
    if tuple(sorted(info)) != tuple(sorted(KEYS)):
        return False
    if info['tb_str'] is not tb and info['tb_str'] != tb:
        return False
    ll = info['last_line']
    if not isinstance(ll, (str, bytes)):
        return False
    for f in (info['mon_files'] or []):
        if f not in (files or []):
            return False
    return len(app.routes) == 3


def tw_total(tb_kind: int, text: str, files_kind: int, f1: str, f2: str) -> bool:
    tb = _tb_value(tb_kind, text)
    with _Patched():
        app = F.create_app(tb, _files_value(files_kind, f1, f2))
    info = F.get_flaw_info(**app.resources)
    return info['last_line'] == 'Unknown error' and files_kind >= 2


def confirm_total(tb_kind, text, files_kind, f1, f2):
    """Public API: the real failsafe application answers / and another path with a 200 page."""
    tb = _tb_value(tb_kind, text)
    try:
        app = F.create_app(tb, _files_value(files_kind, f1, f2))
        cl = app.get_local_client()
        for path in ('/', '/some/where'):
            resp = cl.get(path)
            if resp.status_code != 200:
                return True
        return False
    except Exception:
        return True


_STD_HEAD = 'Traceback (most recent call last):\n  File "f.py", line 1, in g\n    src\n'
_SE_HEAD = '  File "f.py", line 1\n    x = (\n        ^\n'


def ob_parse_std(form: int, T: str, M: str) -> bool:
    """standard traceback whose last line is 'T: M' -> parsed type and message."""
    tb = (_STD_HEAD if form == 0 else _SE_HEAD) + T + ': ' + M
    with _RealRe():
        p = F._ParsedTB.from_string(tb)
    d = p.to_dict()
    return d['exc_type'] == T and d['exc_msg'].strip() == M.strip() and len(d['frames']) == 1 \
        and d['frames'][0]['filepath'] == 'f.py'


def ob_parse_via_create(form: int, T: str, M: str) -> bool:
    """the same through create_app: the page context names type and message."""
    tb = (_STD_HEAD if form == 0 else _SE_HEAD) + T + ': ' + M
    with _Patched():
        app = F.create_app(tb, None)
    pe = app.resources['parsed_error']
    return pe.get('exc_type') == T and pe.get('exc_msg', '').strip() == M.strip()


def confirm_parse(form, T, M):
    tb = (_STD_HEAD if form == 0 else _SE_HEAD) + T + ': ' + M
    app = F.create_app(tb, None)
    page = app.get_local_client().get('/').get_data(True)
    head = '<h2 class="parsed-error-h2">%s<p>' % ashes.escape_html(T)
    if head not in page:
        return True
    after = page.split(head, 1)[1].split('</p>', 1)[0]
    return ashes.escape_html(M.strip()) not in after


def ob_escape(s: str) -> bool:
    """the filter the template applies to every dynamic field: no markup survives."""
    out = ashes.escape_html(s)
    for ch in '<>"\'':
        if ch in out:
            return False
    # every & starts one of the five entities
    rest = out
    for e in ENTS:
        rest = rest.replace(e, '')
    return '&' not in rest


def tw_escape(s: str) -> bool:
    return '&lt;' in ashes.escape_html(s)


def template_is_autoescaped():
    """static check of the real template: every reference is rendered through the default (escaping) filter."""
    import re
    refs = re.findall(r'\{([^#/:?^<>@+!~{}][^{}]*)\}', F._FLAW_TEMPLATE)
    bad = [r for r in refs if '|' in r]
    return bad, refs


def render_page(tb, files):
    app = F.create_app(tb, files)
    return app.get_local_client().get('/x/y').get_data(True)


import os as _os
TB_CATALOGUE = [('ValueError', 'bad value'), ('Exception', '3 malformed rows ignored'), ('Exception', 'ignored'), ('json.decoder.JSONDecodeError', 'Expecting value: line 1'),
                ('KeyError', "'k'"), ('Exception', 'Exception ignored in: <x>'), ('my_pkg.Err', 'a: b: c'), ('OSError', '[Errno 5] Input/output error: <f>'),
                ('UnicodeDecodeError', "'utf-8' codec can't decode"), ('E', '')]


def _tb_catalogue(i, depth, trailer):
    T, M = TB_CATALOGUE[i]
    frames = ''.join('  File "m%d.py", line %d, in f%d\n    call%d()\n' % (k, k + 1, k, k) for k in range(depth + 1))
    tb = 'Traceback (most recent call last):\n' + frames + T + ': ' + M
    if trailer:
        tb += '\n'
    app = F.create_app(tb, None)
    page = app.get_local_client().get('/').get_data(True)
    head = '<h2 class="parsed-error-h2">%s<p>' % ashes.escape_html(T)
    if head not in page:
        return False
    after = page.split(head, 1)[1].split('</p>', 1)[0]
    return ashes.escape_html(M.strip()) in after


def ob_tb_catalogue(i: int, depth: int, trailer: bool) -> bool:
    from harness.util import untraced
    with untraced():
        return _tb_catalogue(i, depth, trailer)


def confirm_tb_catalogue(i, depth, trailer):
    return not _tb_catalogue(i, depth, trailer)


def _files_on_page(kind):
    """every monitored file name is on the page (escaped) - also the ones inside the stdlib / site-packages / clastic"""
    import werkzeug
    files = [['/app/<main>.py', _os.__file__, werkzeug.__file__, F.__file__], [_os.__file__], ['/srv/a&b.py'] * 3 + [werkzeug.__file__], []][kind]
    want = list(files)
    app = F.create_app('boom', list(files) if files else files)
    for path in ('/', '/x/y'):
        resp = app.get_local_client().get(path)
        if resp.status_code != 200:
            return False
        page = resp.get_data(True)
        for fn in want:
            if ashes.escape_html(fn) not in page:
                return False
        if '<main>' in page:
            return False
    return True


def ob_files_on_page(kind: int) -> bool:
    from harness.util import untraced
    with untraced():
        return _files_on_page(kind)


def confirm_files_on_page(kind):
    return not _files_on_page(kind)


# ---- the failsafe application answers EVERY path (the ones under its asset prefix included)
EVERY_PATHS = ['/', '/x', '/some/where/deep', '//', '/%00', '/clastic_assets', '/clastic_assets/', '/clastic_assets/..', '/clastic_assets/../settings.py',
               '/clastic_assets/%2e%2e/app.py', '/clastic_assets/img/../../x', '/clastic_assets/missing.css', '/clastic_assets//', '/clastic_assets/./common.css',
               '/clastic_assets/common.css', '/clastic_assets/..%2f..%2fetc/passwd', '/clastic_assets/%00', '/clastic_assets/a/b/c/../../../../..']
EVERY_METHODS = ['GET', 'POST', 'PUT', 'DELETE', 'HEAD']


def _every_path(path_i, method_i, tb_i):
    """200 for every path and method; the page carries the error text unless the path names a real asset file"""
    text = ['Traceback (most recent call last):\n  File "f.py", line 1, in g\nValueError: plarp <&>', 'no traceback at all', ''][tb_i]
    app = F.create_app(text, ['app.py'])
    from werkzeug.test import Client
    from werkzeug.wrappers import Response
    resp = Client(app, Response).open(EVERY_PATHS[path_i], method=EVERY_METHODS[method_i])
    if resp.status_code != 200:
        return False
    if EVERY_METHODS[method_i] == 'HEAD':
        return True
    body = resp.get_data(True)
    if resp.mimetype == 'text/css':
        return 'common.css' in EVERY_PATHS[path_i]
    return 'plarp &lt;&amp;&gt;' in body if tb_i == 0 else ('no traceback at all' in body if tb_i == 1 else '<html' in body.lower())


def ob_every_path(path_i: int, method_i: int, tb_i: int) -> bool:
    from harness.util import untraced
    with untraced():
        return _every_path(path_i, method_i, tb_i)


def confirm_every_path(path_i, method_i, tb_i):
    return not _every_path(path_i, method_i, tb_i)
