"""C03 E1 harness: merge of middleware lists across levels (real merge_middlewares / BoundRoute / embedding),
observed through the order in which the request middlewares actually run."""
from typing import List
from clastic import Application, Route, SubApplication
from clastic.middleware import Middleware
from clastic.middleware.core import merge_middlewares
from werkzeug.wrappers import Response, Request
from werkzeug.test import EnvironBuilder
from harness.util import R, untraced

LOG = []


def _mk(name, base=Middleware, unique=True, reorderable=True):
    def request(self, next):
        LOG.append(self.tag)
        return next()
    cls = type(name, (base,), {'unique': unique, 'reorderable': reorderable, 'request': request})
    return cls


A = _mk('A')
B = _mk('B')
SubA = _mk('SubA', base=A)                 # a different type that inherits from A
N = _mk('N', unique=False)
D = _mk('D', reorderable=False)
CLASSES = [A, B, SubA, N, D]
NCLS = len(CLASSES)
# list encodings: 0 = empty, 1..5 = one element, 6.. = two elements (ordered pairs)
LISTS = [[]] + [[i] for i in range(NCLS)] + [[i, j] for i in range(NCLS) for j in range(NCLS)]
NLISTS = len(LISTS)


def _inst(idx, level):
    out = []
    for k, i in enumerate(idx):
        m = CLASSES[i]()
        m.tag = '%s@%s%d' % (CLASSES[i].__name__, level, k)
        out.append(m)
    return out


def _own_duplicate(idx):
    """one level's own list holding the same unique type twice: no documented outcome (excluded)"""
    seen = set()
    for i in idx:
        if CLASSES[i].unique and i in seen:
            return True
        seen.add(i)
    return False


def spec_merge(levels):
    """outermost level first; a unique type is kept once, at its outermost position; a non-reorderable unique
    type met again is an error"""
    merged = []
    for lv in levels:
        for m in lv:
            if type(m).unique and any(type(x) is type(m) for x in merged):
                if type(m).reorderable:
                    continue
                return 'ValueError'
            merged.append(m)
    return [m.tag for m in merged]


def _run(outer_i, mid_i, inner_i, use_mid):
    del LOG[:]
    lo, lm, li = LISTS[outer_i], LISTS[mid_i] if use_mid else [], LISTS[inner_i]
    if _own_duplicate(lo) or _own_duplicate(lm) or _own_duplicate(li):
        return True
    outer, mid, inner = _inst(lo, 'o'), _inst(lm, 'm'), _inst(li, 'r')
    want = spec_merge([outer, mid, inner] if use_mid else [outer, inner])
    try:
        route = Route('/x', lambda: Response('ok'), middlewares=inner)
        if use_mid:
            sub = Application([route], middlewares=mid)
            app = Application([('/p', sub)], middlewares=outer)
            path = '/p/x'
        else:
            app = Application([route], middlewares=outer)
            path = '/x'
    except ValueError:
        return want == 'ValueError' or (use_mid and spec_merge([mid, inner]) == 'ValueError')
    if want == 'ValueError':
        return False
    resp = app.dispatch(Request(EnvironBuilder(path=path).get_environ()))
    return resp.status_code == 200 and LOG == want


MIDS = [None, 1, 3, 6 + 1 * NCLS + 0]        # no embedded level | [A] | [SubA] | [B, A]


def _mid(mid_sel):
    if mid_sel < len(MIDS):
        return (MIDS[mid_sel] is not None), (MIDS[mid_sel] or 0)
    return True, mid_sel - len(MIDS)         # thorough tier: every list


def ob_merge(outer_i: int, inner_i: int, mid_sel: int) -> bool:
    with untraced():
        use_mid, mid_i = _mid(mid_sel)
        return _run(outer_i, mid_i, inner_i, use_mid)


def tw_merge(outer_i: int, inner_i: int, mid_sel: int) -> bool:
    with untraced():
        use_mid, mid_i = _mid(mid_sel)
        return _run(outer_i, mid_i, inner_i, use_mid) and len(LOG) == 3 and outer_i > 5 and inner_i > 5


def confirm_merge(outer_i, inner_i, mid_sel):
    use_mid, mid_i = _mid(mid_sel)
    return not _run(outer_i, mid_i, inner_i, use_mid)


def ob_merge_unit(new_i: int, old_i: int) -> bool:
    """merge_middlewares(old, new) itself"""
    with untraced():
        ln, lo = LISTS[new_i], LISTS[old_i]
        if _own_duplicate(ln) or _own_duplicate(lo):
            return True
        new, old = _inst(ln, 'n'), _inst(lo, 'o')
        want = spec_merge([new, old])
        try:
            got = merge_middlewares(old, new)
        except ValueError:
            return want == 'ValueError'
        return (want != 'ValueError' and [m.tag for m in got] == want and got is not new and got is not old and
                [m.tag for m in old] == ['%s@o%d' % (CLASSES[i].__name__, k) for k, i in enumerate(lo)] and
                [m.tag for m in new] == ['%s@n%d' % (CLASSES[i].__name__, k) for k, i in enumerate(ln)])


# ------------------------------------------------------------------ special middleware kinds: all three phases observed
def _mk3(name, unique=True, hook_objects=False):
    """a middleware type with request, endpoint and render hooks that log entry/exit; hook_objects: the hooks are callable
    OBJECTS assigned per instance (not methods)"""
    def mkhook(phase):
        def hook(self, next):
            LOG.append('%s.%s>' % (self.tag, phase))
            try:
                return next()
            finally:
                LOG.append('%s.%s<' % (self.tag, phase))
        return hook
    if not hook_objects:
        return type(name, (Middleware,), {'unique': unique, 'request': mkhook('q'), 'endpoint': mkhook('e'), 'render': mkhook('r')})

    class _Hook(object):
        def __init__(self, owner, phase):
            self.owner, self.phase = owner, phase

        def __call__(self, next):
            LOG.append('%s.%s>' % (self.owner.tag, self.phase))
            try:
                return next()
            finally:
                LOG.append('%s.%s<' % (self.owner.tag, self.phase))

    def __init__(self):
        self.request, self.endpoint, self.render = _Hook(self, 'q'), _Hook(self, 'e'), _Hook(self, 'r')
    return type(name, (Middleware,), {'unique': unique, '__init__': __init__})


SP_CLASSES = [_mk3('P'), _mk3('P'), _mk3('HookObj', hook_objects=True), _mk3('Multi', unique=False)]    # two DIFFERENT classes both named "P"
SP_LISTS = [[]] + [[i] for i in range(4)] + [[i, j] for i in range(4) for j in range(4)]
NSP = len(SP_LISTS)


def _special(outer_i, mid_sel, inner_i):
    """three levels (application, embedded application, route) of lists over: two distinct classes that share a __name__,
    a class whose hooks are callable objects, a non-unique class (several instances in one stack).  The request,
    endpoint and render phases each nest in merged-list order."""
    del LOG[:]
    mids = [None, [3], [0, 3], [2]]
    lo, li, lm = SP_LISTS[outer_i], SP_LISTS[inner_i], mids[mid_sel]
    for l in (lo, li, lm or []):
        if any(SP_CLASSES[i].unique and l.count(i) > 1 for i in l):
            return True

    def inst(idx, level):
        out = []
        for k, i in enumerate(idx):
            m = SP_CLASSES[i]()
            m.tag = 'c%d@%s%d' % (i, level, k)
            out.append(m)
        return out
    outer, mid, inner = inst(lo, 'o'), inst(lm or [], 'm'), inst(li, 'r')
    merged = []
    for lv in ([outer, mid, inner] if lm is not None else [outer, inner]):
        for m in lv:
            if type(m).unique and any(type(x) is type(m) for x in merged):
                continue
            merged.append(m)
    want = []
    for ph in ('q', 'e'):
        want += ['%s.%s>' % (m.tag, ph) for m in merged]
    want.append('EP')
    want += ['%s.e<' % m.tag for m in reversed(merged)]
    want += ['%s.r>' % m.tag for m in merged] + ['RN'] + ['%s.r<' % m.tag for m in reversed(merged)]
    want += ['%s.q<' % m.tag for m in reversed(merged)]

    def ep():
        LOG.append('EP')
        return {}

    def rn(context):
        LOG.append('RN')
        return Response('ok')
    route = Route('/x', ep, rn, middlewares=inner)
    if lm is not None:
        app = Application([('/p', Application([route], middlewares=mid))], middlewares=outer)
        path = '/p/x'
    else:
        app = Application([route], middlewares=outer)
        path = '/x'
    resp = app.dispatch(Request(EnvironBuilder(path=path).get_environ()))
    return resp.status_code == 200 and LOG == want


def ob_special(outer_i: int, mid_sel: int, inner_i: int) -> bool:
    with untraced():
        return _special(outer_i, mid_sel, inner_i)


def confirm_special(outer_i, mid_sel, inner_i):
    return not _special(outer_i, mid_sel, inner_i)
