"""C07 harnesses: normalize_path lemmas (symbolic), redirect decision in dispatch (stub route), and the
end-to-end one-hop property with URL-significant characters in decoded segments."""
from typing import List
import clastic.application as A
from clastic.application import Application
from clastic.route import normalize_path, Route, BoundRoute, S_REDIRECT, S_REWRITE, S_STRICT, GET, POST
from clastic.errors import NotFound
from werkzeug.wrappers import Response, Request, BaseResponse
from werkzeug.test import EnvironBuilder
from werkzeug.urls import url_quote
from harness.util import R, untraced


# ---------------------------------------------------------------- normalize_path (symbolic text)
def canonical(p, branch):
    segs = [x for x in p.split('/') if x]
    if not segs:
        return '/'
    return '/' + '/'.join(segs) + ('/' if branch else '')


def ob_norm_idempotent(p: str, branch: bool) -> bool:
    n = normalize_path(p, branch)
    return normalize_path(n, branch) == n


def ob_norm_shape(p: str, branch: bool) -> bool:
    """starts with '/', no '//', ends with '/' iff branch (or root), same non-empty segments in order"""
    n = normalize_path(p, branch)
    if not n.startswith('/') or '//' in n:
        return False
    if [x for x in n.split('/') if x] != [x for x in p.split('/') if x]:
        return False
    if n == '/':
        return True
    return n.endswith('/') == branch


def ob_norm_fixed_point(p: str, branch: bool) -> bool:
    n = normalize_path(p, branch)
    is_canon = p.startswith('/') and '//' not in p and (p == '/' or p.endswith('/') == branch)
    return (n == p) == is_canon


def tw_norm(p: str, branch: bool) -> bool:
    return normalize_path(p, branch) != p and len(p) >= 3


# ---------------------------------------------------------------- decision logic (stub route, symbolic path)
class _StubRoute(object):
    render_error = None
    methods = None
    pattern = '/stub/'

    def __init__(self, is_branch, mode, allowed):
        self.is_branch, self.slash_mode, self.allowed = is_branch, mode, allowed
        self.executed = 0

    def match_path(self, path):
        return {}

    def match_method(self, m):
        return self.allowed

    def execute(self, **kw):
        self.executed += 1
        return Response('executed')

    def execute_error(self, request, _error, **kw):
        return _error


class _NoAccept(object):
    def best_match(self, options, default=None):
        return None


class _Req(object):
    method = 'GET'
    url_root = 'http://host/'
    accept_mimetypes = _NoAccept()

    def __init__(self, path, qs):
        self.path, self.query_string = path, qs.encode('utf8')


MODES = [S_REDIRECT, S_REWRITE, S_STRICT]
_APP = Application([])


class _NullWrapper(object):
    """the real bound null route; only its regex match gets a realised path (CrossHair's Match.groupdict() on symbolic
    text is unsound: returns spans)"""
    def __init__(self, real):
        self.__dict__['real'] = real

    def __getattr__(self, n):
        return getattr(self.real, n)

    def match_path(self, path):
        return self.real.match_path(R(path))


_APP._null_route = _NullWrapper(_APP._null_route)


def ob_decision(path: str, mode_i: int, branch: bool, allowed: bool, qs_i: int) -> bool:
    """redirect iff redirect mode, branch route, method admitted, path not canonical; rewrite executes; strict falls through"""
    mode_i, qs_i = R(mode_i), R(qs_i)
    qs = ['', 'a=1&b=%3F', 'x'][qs_i]
    route = _StubRoute(True if branch else False, MODES[mode_i], True if allowed else False)
    captured = []

    def fake_redirect(location, code=302, Response=None):
        captured.append(location)
        return Response_('redirected')
    Response_ = Response
    o = A.redirect
    A.redirect = fake_redirect
    app = _APP
    app.routes = [route]
    try:
        out = app.dispatch(_Req(path, qs))
    finally:
        A.redirect = o
        app.routes = []
    noncanon = normalize_path(path, True) != path
    if not allowed:
        return captured == [] and route.executed == 0 and out.status_code == 405 if False else (captured == [] and route.executed == 0)
    if branch and noncanon and MODES[mode_i] == S_REDIRECT:
        if len(captured) != 1 or route.executed != 0:
            return False
        loc = captured[0]
        want_path = url_quote(normalize_path(path, True))
        want = 'http://host' + want_path + ('?' + qs if qs else '')
        return loc == want or (not qs and loc == want + '?')
    if branch and noncanon and MODES[mode_i] == S_STRICT:
        return captured == [] and route.executed == 0 and isinstance(out, NotFound)
    return captured == [] and route.executed == 1 and out.get_data() == b'executed'


def tw_decision(path: str, mode_i: int, branch: bool, allowed: bool, qs_i: int) -> bool:
    mode_i, qs_i = R(mode_i), R(qs_i)
    return mode_i == 0 and branch and allowed and normalize_path(path, True) != path and len(path) >= 2


# ---------------------------------------------------------------- end to end: one hop, same resource
SEGS = ['a', 'x?y', 'p#q', '100%', '%41', 'é', 'b c', 'a:b', '.', 'k;v', 'q&r=s', 'a+b', '%2F', '=', 'mailto:x@y', '..']
QS = ['', 'a=1&b=2', 'q=%3F%23', 'x=é', 'a=1', 'k', 'a=b=c&&']
METHODS = ['GET', 'POST', 'HEAD', 'PUT']


def _apps():
    def static_ep(request):
        return Response('static|%s|%s' % (request.path, request.query_string.decode('latin-1')))

    def single_ep(request, name):
        return Response('single|%s|%s|%s' % (name, request.path, request.query_string.decode('latin-1')))

    def multi_ep(request, parts):
        return Response('multi|%s|%s|%s' % ('/'.join(parts), request.path, request.query_string.decode('latin-1')))
    out = {}
    for mode in MODES:
        routes = [Route('/static/', static_ep), Route('/one/<name>/', single_ep), Route('/many/<parts+>/', multi_ep),
                  Route('/leaf/<name>', single_ep), GET('/getonly/<name>/', single_ep),
                  # a POST-only branch route in front of a GET leaf route on the same segment: a GET never gets the POST route's redirect
                  POST('/mixed/<name>/', single_ep), GET('/mixed/<name>', single_ep)]
        out[mode] = Application(routes, slash_mode=mode)
    # inherited through embedding, and not inherited
    inner = Application([Route('/one/<name>/', single_ep)], slash_mode=S_STRICT)
    out['emb_inherit'] = Application([('/pre', inner)], slash_mode=S_REDIRECT)
    out['emb_own'] = Application([A.SubApplication('/pre', inner, inherit_slashes=False)], slash_mode=S_REDIRECT)
    # embedded at the root prefix: the re-bound routes must follow the OUTER application's mode
    out['root_inherit'] = Application([('/', Application([Route('/one/<name>/', single_ep), Route('/leaf/<name>', single_ep)], slash_mode=S_STRICT))], slash_mode=S_REDIRECT)
    out['root_strict_outer'] = Application([('/', Application([Route('/one/<name>/', single_ep), Route('/leaf/<name>', single_ep)], slash_mode=S_REDIRECT))], slash_mode=S_STRICT)
    return out


_APPS = _apps()
_KINDS = ['static', 'one', 'many', 'leaf', 'getonly', 'mixed']


def _url(kind, seg_i, seg2_i, lead, mid, trail):
    q = lambda s: url_quote(SEGS[s], safe='')
    if kind == 'static':
        core = ['static']
    elif kind == 'many':
        core = ['many', q(seg_i), q(seg2_i)]
    else:
        core = [kind, q(seg_i)]
    seps = ['/' * lead] + ['/' * mid] * (len(core) - 1)
    path = ''.join(s + c for s, c in zip(seps, core)) + '/' * trail
    return path


def _one_hop(app_key, kind_i, seg_i, seg2_i, lead, mid, trail, qs_i, method_i):
    app = _APPS[app_key]
    kind = _KINDS[kind_i]
    if app_key in ('root_inherit', 'root_strict_outer'):
        if kind not in ('one', 'leaf'):
            return True
        path = _url(kind, seg_i, seg2_i, lead, mid, trail)
    elif app_key in ('emb_inherit', 'emb_own'):
        if kind != 'one':
            return True
        path = '/pre' + _url(kind, seg_i, seg2_i, lead, mid, trail)
    else:
        path = _url(kind, seg_i, seg2_i, lead, mid, trail)
    qs = QS[qs_i]
    method = METHODS[method_i]
    cl = app.get_local_client()
    if kind == 'mixed' and (method not in ('GET', 'HEAD') or app_key != S_REDIRECT):
        return True          # the POST-branch/GET-leaf pair is about redirects: redirect-mode application, GET and HEAD
    # earlier requests on the same application must not matter: the same path with ANOTHER query string, and a method
    # that no route on this path admits (405)
    cl.open(path, method=method, query_string=QS[(qs_i + 1) % len(QS)])
    cl.open(path, method='DELETE', query_string=qs)
    r1 = cl.open(path, method=method, query_string=qs)
    req0 = Request(EnvironBuilder(path=path, query_string=qs).get_environ())
    decoded = req0.path
    is_branch = kind in ('static', 'one', 'many', 'getonly')
    canon = normalize_path(decoded, is_branch)
    mode = {'emb_inherit': S_REDIRECT, 'emb_own': S_STRICT, 'root_inherit': S_REDIRECT, 'root_strict_outer': S_STRICT}.get(app_key, app_key)
    admitted = not (kind == 'getonly' and method in ('POST', 'PUT'))
    if r1.status_code in (301, 302, 303, 307, 308):
        # only: redirect mode, branch route, admitted method, non-canonical path
        if not (mode == S_REDIRECT and is_branch and admitted and canon != decoded):
            return False
        loc = r1.headers['Location']
        from urllib.parse import urlsplit
        sp = urlsplit(loc)
        if sp.scheme != 'http' or sp.netloc != 'localhost' or sp.fragment:
            return False

        def follow(m):
            return cl.open(sp.path + ('?' + sp.query if sp.query else ''), method=m)
        r2 = follow(method)
        if r2.status_code in (301, 302, 303, 307, 308):
            return False                      # a second redirect
        req2 = Request(EnvironBuilder(path='/').get_environ())
        # the Location names the same resource: same decoded canonical path, same query string
        if r2.status_code != 200:
            return False
        if method == 'HEAD':
            r2 = follow('GET')
        body = r2.get_data(True).split('|')
        from urllib.parse import unquote_to_bytes
        # same decoded path; same query (a raw non-ASCII byte and its percent-encoding are the same query)
        return body[-2] == canon and unquote_to_bytes(body[-1].encode('latin-1')) == unquote_to_bytes(req0.query_string)
    if mode == S_REDIRECT and is_branch and admitted and canon != decoded and not (kind in ('leaf', 'mixed')):
        return False          # must have been redirected
    if mode == S_STRICT and canon != decoded:
        return r1.status_code == 404      # strict: a non-canonical path does not match (leaf routes included)
    if mode == S_REWRITE and admitted and method != 'HEAD':
        return r1.status_code == 200
    return True


SLASHES = [(1, 1), (2, 1), (1, 2), (2, 3)]
APP_KEYS = [S_REDIRECT, S_REWRITE, S_STRICT, 'emb_inherit', 'emb_own', 'root_inherit', 'root_strict_outer']


def ob_one_hop(app_i: int, kind_i: int, seg_i: int, method_i: int, seg2_i: int, sl: int, trail: int, qs_i: int) -> bool:
    with untraced():
        key = APP_KEYS[app_i]
        return _one_hop(key, kind_i, seg_i, seg2_i, SLASHES[sl][0], SLASHES[sl][1], trail, qs_i, method_i)


def confirm_one_hop(app_i, kind_i, seg_i, method_i, seg2_i, sl, trail, qs_i):
    key = APP_KEYS[app_i]
    return not _one_hop(key, kind_i, seg_i, seg2_i, SLASHES[sl][0], SLASHES[sl][1], trail, qs_i, method_i)
