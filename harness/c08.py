"""C08 harnesses: every behaviour of application code at every chain position yields a complete response."""
from typing import List, Tuple
from clastic.application import Application
from clastic.route import Route
from clastic.middleware import Middleware
from clastic import errors as E
from clastic.errors import (HTTPException, ErrorHandler, ContextualErrorHandler, InternalServerError, NotFound,
                            ERROR_CODE_MAP, ImATeapot)
from werkzeug.wrappers import Response, Request, BaseResponse
from werkzeug.test import EnvironBuilder
from harness.util import R, concrete_repr, untraced

POSITIONS = ['req_before', 'req_after', 'epmw', 'endpoint', 'rnmw', 'render', 'endpoint_norender']
_ALLC = sorted(c for c in ERROR_CODE_MAP if c)
_FIRST = [400, 404, 405, 500, 503, 418, 502, 401, 403, 501, 504, 429]
CODES = _FIRST + [c for c in _ALLC if c not in _FIRST]       # representative codes first (quick tier uses a prefix)
MSGS = ['boom', 'é\x00<b>&"', 'x' * 3000, '']
BUILTIN_EXCS = [ValueError, KeyError, ZeroDivisionError, TypeError, AttributeError, RuntimeError, OSError,
                UnicodeError, LookupError, AssertionError, NotImplementedError, StopIteration]
PLAN = {'pos': None}


class _Weird(object):
    def __repr__(self):
        return '<weird "object" & co>'


def _glom_stub(target, spec, skip_exc=None, **kw):
    """clastic.errors uses glom only as `glom(self, T.exc_info.to_dict(), skip_exc=Exception)`.  glom's ScopeVars does
    `self.__dict__ = dict(base)`, which CrossHair's dict interception breaks (ShellMutableMap) - a tool artefact.
    Contract stub: the value of the one spec used, None on any exception."""
    try:
        return target.exc_info.to_dict()
    except Exception:
        return None


E.glom = _glom_stub
concrete_repr(E)
import boltons.tbutils as _tbu
concrete_repr(_tbu)
_NOTHING = object()


def act(pos):
    if PLAN['pos'] != pos:
        return _NOTHING
    kind, k, msg = PLAN['kind'], PLAN['k'], PLAN['msg']
    if kind == 0:
        raise BUILTIN_EXCS[k % len(BUILTIN_EXCS)](msg)
    if kind == 1:
        exc = ERROR_CODE_MAP[CODES[k % len(CODES)]](msg or None)
        PLAN['obj'] = exc
        raise exc
    if kind == 2:
        exc = ERROR_CODE_MAP[CODES[k % len(CODES)]](msg or None)
        PLAN['obj'] = exc
        return exc
    if kind == 3:
        return ['notresp', None, 12, {'a': 1}, [1], 1.5][k % 6]
    if kind == 4:
        exc = [NotFound, E.Forbidden][k % 2](msg or None, is_breaking=False)
        PLAN['obj'] = exc
        raise exc
    if kind == 5:
        return Response('early', status=[200, 201, 302, 503][k % 4])
    if kind in (6, 7):
        # an application error whose fields are not JSON-native (the repr fallback of the error encoder must cope)
        # (detail stays text: HTTPException documents it as a string and cannot be constructed otherwise)
        exc = E.BadRequest('d', error_type=_Weird() if k % 2 == 0 else 'http://x/{y}', message=[_Weird(), 'M'][(k // 2) % 2])
        PLAN['obj'] = exc
        if kind == 6:
            raise exc
        return exc
    return _NOTHING


class PlanMW(Middleware):
    def request(self, next):
        r = act('req_before')
        if r is not _NOTHING:
            return r
        ret = next()
        r = act('req_after')
        if r is not _NOTHING:
            return r
        return ret

    def endpoint(self, next):
        r = act('epmw')
        if r is not _NOTHING:
            return r
        return next()

    def render(self, next, context):
        r = act('rnmw')
        if r is not _NOTHING:
            return r
        return next()


def ep():
    r = act('endpoint')
    if r is not _NOTHING:
        return r
    return {'ctx': 1}


def rn(context):
    r = act('render')
    if r is not _NOTHING:
        return r
    return Response('ok')


def ep_norender():
    r = act('endpoint_norender')
    if r is not _NOTHING:
        return r
    return Response('ok')


class _BrokenRenderEH(ErrorHandler):
    def render_error(self, request, _error):
        raise RuntimeError('render_error is broken')


class _OtherErrorEH(ErrorHandler):
    def render_error(self, request, _error):
        return ImATeapot()


class _RaisingOtherEH(ErrorHandler):
    def render_error(self, request, _error):
        raise E.ServiceUnavailable('the error renderer is unavailable')


def _handler(i):
    return [ErrorHandler(), ContextualErrorHandler(), ErrorHandler(reraise_uncaught=True), _BrokenRenderEH(), _OtherErrorEH(), _RaisingOtherEH()][i]


class _CheapTB(object):
    def to_dict(self):
        return {'frames': []}

    def __str__(self):
        return 'tb'


class _CheapEI(object):
    """stand-in for boltons.tbutils.(Contextual)ExceptionInfo: formatting tracebacks under the tracer costs seconds
    per path and is not clastic code; the real class is used in the cells with real_ei=True and in every confirm leg."""
    def __init__(self, et, em):
        self.exc_type, self.exc_msg, self.tb_info = et, em, _CheapTB()

    @classmethod
    def from_current(cls):
        import sys
        et, ev, tb = sys.exc_info()
        return cls(R(et.__name__), R(str(ev)[:50]))

    def to_dict(self):
        return {'exc_type': self.exc_type, 'exc_msg': self.exc_msg}

    def __repr__(self):
        return R('<%s: %s>' % (self.exc_type, self.exc_msg))   # CrossHair's %-formatting yields a symbolic str even for concrete operands


def _mk_app(i, cheap=False):
    eh = _handler(i)
    if cheap:
        eh.exc_info_type = _CheapEI
    from clastic.route import GET
    return Application([Route('/x', ep, rn), Route('/nr', ep_norender), GET('/getonly', ep_norender)], middlewares=[PlanMW()], error_handler=eh)


APPS = [_mk_app(i, True) for i in range(6)]
APPS_REAL = [_mk_app(i) for i in range(6)]
ACCEPTS = ('text/plain', 'text/html', 'application/json')
REQ_X = [Request(EnvironBuilder(path='/x', headers={'Accept': a}).get_environ()) for a in ACCEPTS]
REQ_NR = [Request(EnvironBuilder(path='/nr', headers={'Accept': a}).get_environ()) for a in ACCEPTS]
REQ_UNKNOWN = Request(EnvironBuilder(path='/no/such/route', headers={'Accept': 'text/plain'}).get_environ())
REQ_WRONG_METHOD = Request(EnvironBuilder(path='/getonly', method='POST', headers={'Accept': 'text/plain'}).get_environ())


def _snapshot(app):
    return (id(app.error_handler), len(app.routes), tuple(id(r) for r in app.routes), tuple(id(r._execute) for r in app.routes),
            tuple(sorted(app.resources)), id(app._null_route), app.slash_mode, app.debug)


def expected(pos_i, kind, k, handler_i):
    """('status', code) | ('reraise', exc_type) | ('response', status)"""
    pos = POSITIONS[pos_i]
    reraise = handler_i == 2
    if kind == 0:
        return ('reraise', BUILTIN_EXCS[k % len(BUILTIN_EXCS)]) if reraise else ('status', 500)
    if kind in (1, 2):
        return ('error', CODES[k % len(CODES)])
    if kind == 4:
        return ('error', [404, 403][k % 2])
    if kind in (6, 7):
        return ('error', 400)
    if kind == 5:
        return ('response', [200, 201, 302, 503][k % 4])
    # kind 3: a non-Response value
    if pos in ('endpoint', 'epmw'):
        return ('response', 200)            # it is the render context
    return ('reraise', TypeError) if reraise else ('status', 500)


def run_plan(pos_i, kind, k, msg_i, handler_i, real_ei=False, acc=None):
    app = (APPS_REAL if real_ei else APPS)[handler_i]
    snap = _snapshot(app)
    pos = POSITIONS[pos_i]
    if acc is None:
        acc = 1 if (real_ei or kind in (1, 2)) else 0
    req = (REQ_NR if pos == 'endpoint_norender' else REQ_X)[acc]
    PLAN.update(pos=pos, kind=kind, k=k, msg=MSGS[msg_i], obj=None)
    out = exc = None
    try:
        out = app.dispatch(req)
    except Exception as e:
        exc = e
    finally:
        PLAN['pos'] = None
    # the application serves the next request unchanged
    again = app.dispatch(req)
    healthy = isinstance(again, BaseResponse) and again.status_code == 200 and again.get_data() == b'ok' and _snapshot(app) == snap
    if healthy and handler_i != 4:
        # later requests that end on the catch-all route get their OWN 404 / 405, not a leftover of the failed one
        nf = app.dispatch(REQ_UNKNOWN)
        wm = app.dispatch(REQ_WRONG_METHOD)
        healthy = (isinstance(nf, BaseResponse) and nf.status_code == 404 and nf is not PLAN['obj'] and
                   isinstance(wm, BaseResponse) and wm.status_code == 405 and wm is not PLAN['obj'])
    return out, exc, healthy


def ob_k0(pos_i: int, handler_i: int, acc: int, msg_i: int, k: int) -> bool:
    """kind 0: a built-in exception raised at the selected position (real boltons ExceptionInfo, native run)"""
    with untraced():
        return _complete(pos_i, 0, k, msg_i, handler_i, True, acc)


def ob_k12(pos_i: int, handler_i: int, kk: int, acc: int, k: int) -> bool:
    """kinds 1/2: an exported HTTPException class raised / returned"""
    with untraced():
        return _complete(pos_i, 1 + kk, k, 0, handler_i, True, acc)


def ob_k345(pos_i: int, handler_i: int, kk: int, acc: int, k: int) -> bool:
    """kinds 3/4/5: non-Response value, non-breaking error, early Response; 6/7: error with non-JSON-native fields"""
    with untraced():
        return _complete(pos_i, 3 + kk, k, 0, handler_i, True, acc)


def tw_k345(pos_i: int, handler_i: int, kk: int, acc: int, k: int) -> bool:
    with untraced():
        out, exc, healthy = run_plan(pos_i, 3 + kk, k, 0, handler_i, True, acc)
        return healthy and exc is None and isinstance(out, InternalServerError) and kk == 0


def confirm_k0(pos_i, handler_i, acc, msg_i, k):
    return confirm_complete(pos_i, 0, k, msg_i, handler_i, acc)


def confirm_k12(pos_i, handler_i, kk, acc, k):
    return confirm_complete(pos_i, 1 + kk, k, 0, handler_i, acc)


def confirm_k345(pos_i, handler_i, kk, acc, k):
    return confirm_complete(pos_i, 3 + kk, k, 0, handler_i, acc)


def ob_complete(pos_i: int, kind: int, k: int, msg_i: int, handler_i: int, real_ei: bool) -> bool:
    pos_i, kind, k, msg_i, handler_i = R(pos_i), R(kind), R(k), R(msg_i), R(handler_i)
    return _complete(pos_i, kind, k, msg_i, handler_i, real_ei, None)


def _complete(pos_i, kind, k, msg_i, handler_i, real_ei, acc):
    out, exc, healthy = run_plan(pos_i, kind, k, msg_i, handler_i, real_ei, acc)
    if not healthy:
        return False
    want = expected(pos_i, kind, k, handler_i)
    if want[0] == 'reraise':
        if exc is None or type(exc) is not want[1]:
            return False
        return kind != 0 or exc.args == (MSGS[msg_i],)
    if exc is not None:
        return False
    if not isinstance(out, BaseResponse) or not isinstance(out.status_code, int):
        return False
    if want[0] == 'status':
        if handler_i == 4:
            return out.status_code == 418         # this handler's render_error replaces every error
        eh = APPS[handler_i].error_handler
        if not (out.status_code == want[1] and isinstance(out, eh.server_error_type)):
            return False
        return len(out.get_data()) > 0
    if want[0] == 'response':
        return out.status_code == want[1]
    # an HTTPException raised or returned: its own status, and it is the very object unless render_error replaced it
    if handler_i == 4:
        return out.status_code == 418
    if out is not PLAN['obj']:
        return False
    if out.status_code != want[1]:
        return False
    body = out.get_data(True)
    if handler_i in (3, 5):
        return ('%s' % want[1]) in body          # a failing renderer: default rendering of the SAME error
    return len(body) > 0 and ('%s' % want[1]) in body


def tw_complete(pos_i: int, kind: int, k: int, msg_i: int, handler_i: int, real_ei: bool) -> bool:
    pos_i, kind, k, msg_i, handler_i = R(pos_i), R(kind), R(k), R(msg_i), R(handler_i)
    out, exc, healthy = run_plan(pos_i, kind, k, msg_i, handler_i, real_ei)
    return healthy and exc is None and isinstance(out, InternalServerError) and kind == 3


def confirm_complete(pos_i, kind, k, msg_i, handler_i, acc=0):
    """public API: the same plan through the WSGI callable of a freshly built application, then the probes."""
    app = _mk_app(handler_i)
    pos = POSITIONS[pos_i]
    PLAN.update(pos=pos, kind=kind, k=k, msg=MSGS[msg_i], obj=None)
    cl = app.get_local_client()
    path = '/nr' if pos == 'endpoint_norender' else '/x'
    want = expected(pos_i, kind, k, handler_i)
    hdrs = {'Accept': ACCEPTS[acc or 0]}
    try:
        resp = cl.get(path, headers=hdrs)
    except Exception as e:
        PLAN['pos'] = None
        return not (want[0] == 'reraise' and type(e) is want[1])
    finally:
        PLAN['pos'] = None
    if want[0] == 'reraise':
        return True
    code = 418 if (handler_i == 4 and want[0] in ('error', 'status')) else want[1]
    if resp.status_code != code:
        return True
    if cl.get(path).status_code != 200:
        return True
    if handler_i != 4:
        if cl.get('/no/such/route').status_code != 404 or cl.post('/getonly').status_code != 405:
            return True
    return False


# ------------------------------------------------------------------ applications in one process do not share handler state
def _handler_isolation(dbg_a, dbg_b, who_reraises, order):
    """two applications on their DEFAULT error handlers (plain or debug); re-raising is switched on for one of them after
    construction (what Application.serve(use_debugger=True) does): an uncaught exception escapes from that application
    only - the other one still answers 500; a third application created afterwards too"""
    def boom():
        raise ValueError('boom')
    mk = lambda dbg: Application([('/boom', boom)], debug=bool(dbg))
    if order:
        b = mk(dbg_b); a = mk(dbg_a)
    else:
        a = mk(dbg_a); b = mk(dbg_b)
    apps = [a, b]
    who = who_reraises if who_reraises < 2 else -1          # 2: nobody re-raises
    if who >= 0:
        apps[who].error_handler.reraise_uncaught = True
    apps.append(mk(dbg_a))
    dbg = [dbg_a, dbg_b, dbg_a]
    try:
        return _handler_isolation_probe(apps, who, dbg)
    finally:
        for app in apps:          # a case leaves nothing behind for the next one (handlers might be shared objects)
            app.error_handler.reraise_uncaught = None


def _handler_isolation_probe(apps, who, dbg):
    for i, app in enumerate(apps):
        req = Request(EnvironBuilder(path='/boom', headers={'Accept': 'text/plain'}).get_environ())
        try:
            resp = app.dispatch(req)
        except ValueError:
            if i != who:
                return False          # escaped from an application that was not configured to re-raise
            continue
        if resp.status_code != 500:
            return False
        if i == who and not dbg[i]:
            return False              # the plain ErrorHandler documents reraise_uncaught: the exception goes to the server
    return True


def ob_handler_isolation(dbg_a: int, dbg_b: int, who_reraises: int, order: int) -> bool:
    with untraced():
        return _handler_isolation(dbg_a, dbg_b, who_reraises, order)


def confirm_handler_isolation(dbg_a, dbg_b, who_reraises, order):
    return not _handler_isolation(dbg_a, dbg_b, who_reraises, order)


# ------------------------------------------------------------------ a URL that matches a typed route but does not convert
CONV_PATTERNS = ['/n/<x:int>', '/n/<x?int>', '/n/<x+int>', '/n/<x*int>', '/n/<x:float>', '/n/<x+float>', '/n/<x:str>']
CONV_TAILS = ['7', '9' * 4300, '9' * 4301, '9' * 20000, '1//2', '/3', '1.' + '0' * 5000, '1.5//2', '1e999', '-' + '8' * 4301]


def _converter_failure(patt_i, tail_i, dbg, fallback):
    """every request gets a response: a path the typed pattern's regex accepts but the converter cannot convert (more
    digits than int() takes, empty pieces between repeated slashes) is "no match" - 404, or the next route - never an
    exception out of dispatch, never a 500"""
    def ep(x=None):
        return Response('ep')
    routes = [(CONV_PATTERNS[patt_i], ep)]
    if fallback:
        routes.append(('/n/<rest*>', lambda rest: Response('fallback')))
    app = Application(routes, debug=bool(dbg))
    cl = app.get_local_client()
    try:
        resp = cl.get('/n/' + CONV_TAILS[tail_i])
    except Exception:
        return False
    return resp.status_code in (200, 404)


def ob_converter_failure(patt_i: int, tail_i: int, dbg: int, fallback: int) -> bool:
    with untraced():
        return _converter_failure(patt_i, tail_i, dbg, fallback)


def confirm_converter_failure(patt_i, tail_i, dbg, fallback):
    return not _converter_failure(patt_i, tail_i, dbg, fallback)
