"""C15 harnesses: built-in middlewares must hand back what next() produced (status, decoded body)."""
from typing import List, Tuple
import clastic.middleware.compress as GZ
import clastic.middleware.stats as ST
from clastic.middleware.compress import GzipMiddleware
from clastic.middleware.client_cache import HTTPCacheMiddleware
from clastic.middleware.stats import StatsMiddleware
from clastic.middleware.profile import SimpleProfileMiddleware
from clastic.middleware.cookie import SignedCookieMiddleware
from clastic.middleware.context import ContextProcessor, SimpleContextProcessor
from clastic.middleware.url import GetParamMiddleware, ScriptRootMiddleware
from clastic.middleware.form import PostDataMiddleware
from clastic.errors import NotFound, MethodNotAllowed, InternalServerError, Forbidden, BadGateway
from clastic.sinter import get_arg_names
from werkzeug.wrappers import Response, Request
from werkzeug.test import EnvironBuilder
from harness.util import R, untraced

BODIES = [b'', b'a', b'abcdabcdabcdabcdabcdabcdabcdabcdabcdabcd', b'\x00\xff\x10binary']
CTYPES = ['text/plain', 'application/octet-stream', 'application/javascript']


def _inner(kind, body_i, ctype_i):
    """what next() produces.  kinds 0-3 real Responses, 4-7 HTTPException instances (returned), 8 streamed."""
    body = BODIES[body_i]
    if kind == 0:
        return Response(body, mimetype=CTYPES[ctype_i])
    if kind == 1:
        return Response(body, status=404, mimetype=CTYPES[ctype_i])
    if kind == 2:
        return Response(body, status=301, headers={'Location': '/x'})
    if kind == 3:
        return Response(body, status=500)
    if kind == 4:
        return NotFound()
    if kind == 5:
        return MethodNotAllowed(['GET'])
    if kind == 6:
        return InternalServerError()
    if kind == 7:
        return Forbidden(is_breaking=False)
    return Response((b for b in [body, body]), mimetype=CTYPES[ctype_i])


class _UA(object):
    def __init__(self, browser):
        self.browser = browser


class _GzReq(object):
    def __init__(self, q, browser):
        self.accept_encodings = {'gzip': q}
        self.user_agent = _UA(browser)


def ob_gzip(kind: int, body_i: int, ctype_i: int, q: int, browser_i: int, comp_rel: int, pre_encoded: bool) -> bool:
    with untraced():       # all inputs are realised selectors
        return _ob_gzip(kind, body_i, ctype_i, q, browser_i, comp_rel, pre_encoded)


def _ob_gzip(kind, body_i, ctype_i, q, browser_i, comp_rel, pre_encoded):
    """gzip: status kept; when it compresses: client accepts, bytes sent == what gzip_bytes returned (whose
    gunzip is the original body by zlib's contract), Content-Length == len(sent), Vary names Accept-Encoding;
    otherwise the body is untouched."""
    inner = _inner(kind, body_i, ctype_i)
    if pre_encoded and kind <= 3:
        inner.headers['Content-Encoding'] = 'br'
    status0 = inner.status_code
    data0 = b''.join(inner.response) if kind != 8 else BODIES[body_i] * 2
    if kind == 8:
        inner = _inner(kind, body_i, ctype_i)
    clen = max(0, len(data0) + comp_rel - 2)      # length relation chosen by the stub: len(body) + {-2..1}
    comp = b'Z' * clen
    calls = []

    def gz_stub(data, level=6):
        calls.append(data)
        return comp
    o = GZ.gzip_bytes
    GZ.gzip_bytes = gz_stub
    try:
        out = GzipMiddleware().request(lambda: inner, _GzReq(q, [None, 'msie', 'firefox'][browser_i]))
    finally:
        GZ.gzip_bytes = o
    if out is not inner or out.status_code != status0:
        return False
    sent = b''.join(out.response)
    if out.headers.get('Content-Encoding') == 'gzip':
        if not (q > 0 and calls == [data0] and sent == comp and len(comp) < len(data0)):
            return False
        if out.headers.get('Content-Length') != str(len(comp)):
            return False
        return 'accept-encoding' in (out.headers.get('Vary') or '').lower()
    if sent != data0:
        return False
    if q > 0 and kind <= 3 and 'accept-encoding' not in (out.headers.get('Vary') or '').lower():
        return False
    return True


def tw_gzip(kind: int, body_i: int, ctype_i: int, q: int, browser_i: int, comp_rel: int, pre_encoded: bool) -> bool:
    inner = _inner(kind, body_i, ctype_i)
    o = GZ.gzip_bytes
    GZ.gzip_bytes = lambda d, level=6: b'Z' * max(0, len(d) + comp_rel - 2)
    try:
        out = GzipMiddleware().request(lambda: inner, _GzReq(q, None))
    except Exception:
        return False
    finally:
        GZ.gzip_bytes = o
    return out.headers.get('Content-Encoding') == 'gzip'


# ------------------------------------------------------------------ generic pass-through
def _mw(i):
    return [GzipMiddleware(), HTTPCacheMiddleware(), StatsMiddleware(), SimpleProfileMiddleware(),
            SignedCookieMiddleware(secret_key=b'k'), ContextProcessor(), SimpleContextProcessor(),
            GetParamMiddleware(['p']), PostDataMiddleware(['f']), ScriptRootMiddleware()][i]


class _Route(object):
    pattern = '/r'


QUERIES = ['p=1', '', '_prof_sort=price', '_prof_sort=&_prof=', 'p=1&p=2&format=html', '_prof_sort=calls&callback=cb', 'f=1&script_root=/x']


def _real_request(method, cookie, qs='p=1'):
    hdrs = {'Accept-Encoding': 'gzip'}
    if cookie:
        hdrs['Cookie'] = 'clastic_cookie=%s' % cookie
    return Request(EnvironBuilder(path='/r', method=method, headers=hdrs, query_string=qs).get_environ())


def ob_passthrough(mw_i: int, kind: int, cookie_i: int, qs_i: int, raised: bool, method_i: int) -> bool:
    with untraced():       # all inputs are realised selectors
        return _ob_passthrough(mw_i, kind, raised, method_i, cookie_i, qs_i)


def _ob_passthrough(mw_i, kind, raised, method_i, cookie_i, qs_i=0):
    """every built-in middleware in default configuration: next()'s outcome is the caller's outcome."""
    mw = _mw(mw_i)
    inner = _inner(kind, 2, 0) if kind <= 8 else ValueError('boom')
    raised = raised or kind > 8
    if raised and (kind <= 3 or kind == 8):
        raised = False                  # plain Responses cannot be raised
    status0 = getattr(inner, 'status_code', None)
    data0 = b''.join(inner.response) if (kind <= 7) else None
    req = _real_request(['GET', 'HEAD', 'POST'][method_i], [None, 'garbage', 'a?b=c'][cookie_i], QUERIES[qs_i])

    def nxt(**kw):
        if raised:
            raise inner
        return inner
    fn = mw.request if mw.request else mw.render
    names = get_arg_names(fn)
    avail = dict(next=nxt, request=req, _route=_Route(), context={'a': 1})
    kwargs = dict((n, avail[n]) for n in names if n in avail)
    gz_calls = []

    def gz_stub(data, level=6):
        gz_calls.append(data)
        return b'Z'
    clock = [100.0]

    def now():
        clock[0] += 1.0
        return clock[0]
    o_gz, o_time = GZ.gzip_bytes, ST.time.time
    GZ.gzip_bytes, ST.time.time = gz_stub, now
    try:
        out = fn(**kwargs)
    except Exception as e:
        return raised and e is inner
    finally:
        GZ.gzip_bytes, ST.time.time = o_gz, o_time
    if raised:
        return False
    if out is not inner:
        return False
    if out.status_code != status0:
        return False
    if kind <= 7:
        sent = b''.join(out.response)
        if out.headers.get('Content-Encoding') == 'gzip':
            return sent == b'Z' and gz_calls == [data0]     # contract stub: gunzip(b'Z') == the one body it was given
        return sent == data0
    return True


def tw_passthrough(mw_i: int, kind: int, cookie_i: int, qs_i: int, raised: bool, method_i: int) -> bool:
    return raised and kind == 4 and mw_i == 2 and ob_passthrough(mw_i, kind, cookie_i, qs_i, raised, method_i)


def _scenario(mws):
    from clastic import Application, render_basic, GET
    from clastic.errors import BadRequest

    def ep_resp():
        return Response(BODIES[2], mimetype='text/plain')

    def ep_ctx():
        return {'k': [1, 2, 3]}

    def ep_redirect():
        from werkzeug.utils import redirect
        return redirect('/resp')

    def ep_raise404():
        raise NotFound('gone')

    def ep_ret403():
        return Forbidden('nope')

    def ep_nb():
        raise NotFound(is_breaking=False)

    def ep_boom():
        raise ValueError('boom')

    def ep_retlong():
        from clastic.errors import BadRequest
        return BadRequest('compressible detail ' * 40)

    def ep_raiselong():
        from clastic.errors import BadGateway
        raise BadGateway('compressible detail ' * 40)
    def ep_echo(request):
        body = request.get_data()
        return Response(b'%d:' % len(body) + body, mimetype='application/octet-stream')

    def ep_passthrough(request):
        import io
        from werkzeug.wsgi import wrap_file
        return Response(wrap_file(request.environ, io.BytesIO(BODIES[2] * 3)), direct_passthrough=True, mimetype='text/plain')
    return Application([('/echo', ep_echo), ('/passthrough', ep_passthrough), ('/retlong', ep_retlong), ('/raiselong', ep_raiselong), ('/resp', ep_resp), ('/ctx', ep_ctx, render_basic), ('/redir', ep_redirect),
                        ('/r404', ep_raise404), ('/r403', ep_ret403), ('/nb', ep_nb), ('/boom', ep_boom),
                        GET('/getonly', ep_resp)], middlewares=mws)


_PATHS = ['/resp', '/ctx', '/redir', '/r404', '/r403', '/nb', '/boom', '/getonly', '/unknown', '/retlong', '/raiselong', '/echo', '/passthrough']
_ACCEPTS = [None, 'text/html', 'application/json', '*/*']


def _end_to_end(mw_i, path_i, method_i, gzip_ok, qs_i, acc_i):
    import gzip
    method = ['GET', 'HEAD', 'POST'][method_i]
    hdrs = {'Accept-Encoding': 'gzip'} if gzip_ok else {}
    if _ACCEPTS[acc_i]:
        hdrs['Accept'] = _ACCEPTS[acc_i]
    outs = []
    for mws in ([], [_mw(mw_i)]):
        app = _scenario(mws)
        kw = {}
        if method == 'POST':
            kw = dict(data='a=1&b=two+words&p=9', content_type='application/x-www-form-urlencoded')
        resp = app.get_local_client().open(_PATHS[path_i], method=method, headers=hdrs, query_string=QUERIES[qs_i], **kw)
        body = resp.get_data()
        if resp.headers.get('Content-Encoding') == 'gzip':
            if not gzip_ok:
                return False
            if method != 'HEAD' and resp.headers.get('Content-Length') != str(len(body)):
                return False
            if 'accept-encoding' not in (resp.headers.get('Vary') or '').lower():
                return False
            if method != 'HEAD':
                try:
                    body = gzip.decompress(body)
                except Exception:
                    return False            # labelled gzip but not decodable
        if _PATHS[path_i] == '/boom':
            body = b''            # the 500 body quotes the traceback, whose frames legitimately differ
        outs.append((resp.status_code, body))
    return outs[0] == outs[1]


def ob_end_to_end(mw_i: int, path_i: int, method_i: int, gzip_ok: bool, qs_i: int, acc_i: int) -> bool:
    """whole application with vs. without the middleware through the WSGI client: same status, same decoded body.
    All inputs are selectors: they are realised (solver-driven case split) and the run is executed natively."""
    mw_i, path_i, method_i, qs_i, acc_i = R(mw_i), R(path_i), R(method_i), R(qs_i), R(acc_i)
    gzip_ok = True if gzip_ok else False
    with untraced():
        return _end_to_end(mw_i, path_i, method_i, gzip_ok, qs_i, acc_i)


def confirm_end_to_end(mw_i, path_i, method_i, gzip_ok, qs_i, acc_i):
    return not _end_to_end(mw_i, path_i, method_i, gzip_ok, qs_i, acc_i)


def confirm_passthrough(mw_i, kind, cookie_i, qs_i, raised, method_i):
    # map the unit outcome kinds to scenario routes
    path = {4: '/unknown', 5: '/getonly', 6: '/boom', 7: '/nb'}.get(kind)
    if path is None:
        return True
    m = 1 if False else (2 if kind == 5 else 0)
    for g in (True, False):
        if not _end_to_end(mw_i, _PATHS.index(path), m, g, qs_i, 0):
            return True
    if kind == 4 and not raised:
        return not _end_to_end(mw_i, _PATHS.index('/r403'), 0, True, qs_i, 0)
    return False


def _real_gzip_request(accept_encoding, browser_i=0):
    from werkzeug.test import EnvironBuilder
    hdrs = {}
    if accept_encoding is not None:
        hdrs['Accept-Encoding'] = accept_encoding
    ua = [None, 'Mozilla/5.0 (compatible; MSIE 10.0; Windows NT 6.1; Trident/6.0)', 'Mozilla/5.0 (X11; Linux x86_64; rv:109.0) Gecko/20100101 Firefox/115.0'][browser_i]
    if ua:
        hdrs['User-Agent'] = ua
    return Request(EnvironBuilder(path='/', headers=hdrs).get_environ())


def _gzip_semantics(out, data0, accepts, pre_encoded=False):
    """the statement, without any stub: a body labelled gzip decompresses to exactly the original bytes and is only sent
    to a client that accepts gzip; anything else is the original body"""
    import gzip
    sent = b''.join(out.response)
    if out.headers.get('Content-Encoding') == 'gzip' and not pre_encoded:
        if not accepts:
            return False
        try:
            if gzip.decompress(sent) != data0:
                return False
        except Exception:
            return False
        return out.headers.get('Content-Length') == str(len(sent))
    return sent == data0


def confirm_gzip(kind, body_i, ctype_i, q, browser_i, comp_rel, pre_encoded):
    """no stubs: the real compressor, a real werkzeug Request carrying `gzip` or `gzip;q=0`"""
    if kind in (4, 5, 6, 7):
        return confirm_passthrough(0, kind, 0, 0, False, 0)
    inner = _inner(kind, body_i, ctype_i)
    if pre_encoded and kind <= 3:
        inner.headers['Content-Encoding'] = 'br'
    data0 = b''.join(inner.response) if kind != 8 else BODIES[body_i] * 2
    if kind == 8:
        inner = _inner(kind, body_i, ctype_i)
    req = _real_gzip_request('gzip' if q > 0 else 'gzip;q=0', browser_i)
    out = GzipMiddleware().request(lambda: inner, req)
    return not (out is inner and _gzip_semantics(out, data0, q > 0, pre_encoded and kind <= 3))


# ---- one middleware instance, several responses in a row; real Accept-Encoding headers (no stubs at all)
import hashlib as _hashlib
SEQ_BODIES = [b'', b'short', b'abcd' * 16000, (b''.join(_hashlib.sha256(b'%d' % i).hexdigest().encode() for i in range(640))),
              b'the quick brown fox ' * 200, bytes(range(256)) * 8]
ACC_ENCS = [(None, False), ('gzip', True), ('gzip;q=0', False), ('identity', False), ('*', True), ('gzip;q=0.0, identity', False), ('identity, *;q=0', False),
            ('deflate, gzip;q=0.5', True), ('', False), ('*;q=0', False)]


def _gzip_sequence(b0, b1, b2, a_i):
    mw = GzipMiddleware()
    for i, bi in enumerate((b0, b1, b2)):
        body = SEQ_BODIES[bi]
        enc, accepts = ACC_ENCS[a_i] if i == 2 else ACC_ENCS[1]
        inner = Response(body, mimetype='text/plain')
        out = mw.request(lambda: inner, _real_gzip_request(enc))
        if out is not inner or out.status_code != 200 or not _gzip_semantics(out, body, accepts):
            return False
    return True


def ob_gzip_sequence(b0: int, b1: int, b2: int, a_i: int) -> bool:
    with untraced():
        return _gzip_sequence(b0, b1, b2, a_i)


def confirm_gzip_sequence(b0, b1, b2, a_i):
    """public API: a real application with the middleware, the same three requests through the WSGI client"""
    from clastic import Application
    from werkzeug.test import Client
    import gzip
    app = Application([('/<int:i>', lambda i: Response(SEQ_BODIES[i], mimetype='text/plain'))] if False else
                      [('/<i:int>', lambda i: Response(SEQ_BODIES[i], mimetype='text/plain'))], middlewares=[GzipMiddleware()])
    cl = Client(app, Response)
    for k, bi in enumerate((b0, b1, b2)):
        enc, accepts = ACC_ENCS[a_i] if k == 2 else ACC_ENCS[1]
        resp = cl.get('/%d' % bi, headers=({} if enc is None else {'Accept-Encoding': enc}))
        sent = resp.get_data()
        if resp.headers.get('Content-Encoding') == 'gzip':
            if not accepts:
                return True
            try:
                if gzip.decompress(sent) != SEQ_BODIES[bi]:
                    return True
            except Exception:
                return True
        elif sent != SEQ_BODIES[bi]:
            return True
    return False


def end_to_end_sweep(mw_i):
    """validation leg (plain executions, not a solver claim): the full product for one middleware"""
    bad = []
    n = 0
    for path_i in range(len(_PATHS)):
        for method_i in range(3):
            for gzip_ok in (False, True):
                for qs_i in range(len(QUERIES)):
                    for acc_i in range(len(_ACCEPTS)):
                        n += 1
                        try:
                            ok = _end_to_end(mw_i, path_i, method_i, gzip_ok, qs_i, acc_i)
                        except Exception as e:
                            ok = False
                        if not ok:
                            bad.append((mw_i, path_i, method_i, gzip_ok, qs_i, acc_i))
    return n, bad
