"""C02 E1 harness: values when several routes match the same path (state carried between candidate routes)."""
from clastic import Application, Route, GET, POST
from clastic.application import SubApplication
from clastic.errors import NotFound
from werkzeug.wrappers import Response, Request
from werkzeug.test import EnvironBuilder
from harness.util import R, untraced

DB = object()
NAMES = ['db', 'cfg', 'item_id']


def _two_routes(first_kind, bind_name_i, res_level, method_i):
    """route 1 matches the path but is not taken (wrong method / non-breaking error / strict slash); route 2 is taken.
    Route 1's URL binding is named like a resource (or like the binding) of route 2."""
    seen = {}

    def second(item_id, db, cfg='cfg-default'):
        seen.update(item_id=item_id, db=db, cfg=cfg)
        return Response('second')
    bname = NAMES[bind_name_i]
    first_ep = eval('lambda %s: (_ for _ in ()).throw(NotFound(is_breaking=False))' % bname, {'NotFound': NotFound})
    patt1 = '/item/<%s>' % bname
    if first_kind == 0:
        r1 = POST(patt1, first_ep)                       # skipped: method not admitted
    elif first_kind == 1:
        r1 = Route(patt1, first_ep)                      # runs, raises a non-breaking 404, falls through
    else:
        r1 = Route(patt1 + '/', first_ep, slash_mode='strict')
    res = {'db': DB}
    r2kw = {}
    if res_level == 0:
        r2kw['resources'] = res                          # route-level resource
        app_res = {}
    else:
        app_res = {}
    r2 = GET('/item/<item_id>', second, **r2kw)
    if res_level == 1:
        inner = Application([r2], resources=res)         # resource of an embedded application
        app = Application([r1, ('/', inner)], resources=app_res)
    else:
        app = Application([r1, r2], resources=app_res)
    if first_kind == 2:
        app.routes[0].slash_mode = 'strict'
    resp = app.dispatch(Request(EnvironBuilder(path='/item/42', method=['GET', 'HEAD'][method_i]).get_environ()))
    if resp.status_code != 200:
        return first_kind == 2 and False
    return seen.get('item_id') == '42' and seen.get('db') is DB and seen.get('cfg') == 'cfg-default'


def ob_two_routes(first_kind: int, bind_name_i: int, res_level: int, method_i: int) -> bool:
    with untraced():
        return _two_routes(first_kind, bind_name_i, res_level, method_i)


def confirm_two_routes(first_kind, bind_name_i, res_level, method_i):
    return not _two_routes(first_kind, bind_name_i, res_level, method_i)
