"""C17 harnesses: BasicRender / JSONRender / JSONPRender on symbolic endpoint results (real code)."""
from typing import List, Tuple, Dict, Optional
import json
import clastic.render.simple as RS
from harness.util import R, untraced
from clastic.render.simple import BasicRender, JSONRender, JSONPRender, ClasticJSONEncoder

ALPHA = '{}[]<h a1'
J, H, P = 'application/json', 'text/html', 'text/plain'
# every text over ALPHA of length <= 4 that is a serialized JSON object or array
MIDS = ('', '<html', '<htm', '{', '[', '}', ']')


def _valid_json_texts(maxlen):
    """every text over ALPHA, length <= maxlen, that is a serialized JSON object or array (computed, not hand-listed)."""
    import itertools
    out = []
    inner_alpha = sorted(set(ALPHA))
    for n in range(0, maxlen - 1):
        for mid in itertools.product(inner_alpha, repeat=n):
            for o, c in (('{', '}'), ('[', ']')):
                t = o + ''.join(mid) + c
                try:
                    v = json.loads(t)
                except ValueError:
                    continue
                if isinstance(v, (dict, list)):
                    out.append(t)
    return tuple(out)


VALID_JSON = _valid_json_texts(5)
WINDOW0 = 158


class RecResp(object):
    """Recording stand-in for werkzeug Response (rule R2); the confirm leg uses the real class."""
    def __init__(self, response=None, status=200, mimetype=None, **kw):
        self.response, self.status_code, self.mimetype = response, status, mimetype
        self.mimetype_params = {}


class _Args(object):
    def __init__(self, d):
        self.d = d

    def get(self, k, default=None):
        return self.d.get(k, default)


class _Accept(object):
    def __init__(self, truthy, choice):
        self.truthy, self.choice = truthy, choice

    def __bool__(self):
        return True if self.truthy else False

    def best_match(self, options):
        opts = list(options)
        if self.choice is None or self.choice >= len(opts):
            return None
        return opts[self.choice]      # contract: an element of its argument, or None


class _Req(object):
    def __init__(self, fmt=None, truthy=False, choice=None, cb=None):
        d = {}
        if fmt is not None:
            d['format'] = fmt
        if cb is not None:
            d['callback'] = cb
        self.args = _Args(d)
        self.accept_mimetypes = _Accept(truthy, choice)


class _Stubbed(object):
    def __enter__(self):
        self.o = RS.Response
        RS.Response = RecResp

    def __exit__(self, *a):
        RS.Response = self.o


def _expected_labels(s):
    """three-valued label oracle from the statement: returns the set of acceptable labels."""
    if s and (s[0] == '{' or s[0] == '['):
        closing = '}' if s[0] == '{' else ']'
        if s[-1] == closing:
            if any(s == v for v in VALID_JSON):
                return (J,)
            return (J, P, H)                  # bracketed like JSON but not valid JSON: statement is silent
        # cannot be a serialized JSON object/array (no matching closing bracket): it is "other text" / HTML
        if '<html' in s[:168]:
            return (H,)
        return (H, P) if '<html' in s else (P,)
    if '<html' in s[:168]:
        return (H,)
    if '<html' in s:
        return (H, P)                         # document marker beyond the sniffing window: silent
    return (P,)


def ob_text_label(a: str, mid: int, b: str, as_bytes: bool) -> bool:
    """render_basic on text: 200, body unchanged, label per the statement."""
    text = a + MIDS[mid] + b
    ctx = text.encode('utf8') if as_bytes else text
    with _Stubbed():
        r = BasicRender().render_response(ctx, _Req(), None)
    if r.status_code != 200:
        return False
    if r.response != text.encode('utf8'):
        return False
    return r.mimetype in _expected_labels(text)


def tw_text_label(a: str, mid: int, b: str, as_bytes: bool) -> bool:
    text = a + MIDS[mid] + b
    with _Stubbed():
        r = BasicRender().render_response(text, _Req(), None)
    return r.mimetype == H or r.mimetype == J


def ob_window(pad: int, tail: int, as_bytes: bool) -> bool:
    """the HTML sniffing window: '<html' fully inside the first 168 bytes -> text/html; statement silent beyond."""
    text = 'x' * (WINDOW0 + pad) + '<html>' + 'y' * tail
    ctx = text.encode('utf8') if as_bytes else text
    with _Stubbed():
        r = BasicRender().render_response(ctx, _Req(), None)
    return r.status_code == 200 and r.response == text.encode('utf8') and r.mimetype in _expected_labels(text)


def confirm_window(pad, tail, as_bytes):
    return _confirm_text('x' * (WINDOW0 + pad) + '<html>' + 'y' * tail, as_bytes)


def confirm_text_label(a, mid, b, as_bytes):
    return _confirm_text(a + MIDS[mid] + b, as_bytes)


def _confirm_text(text, as_bytes):
    from clastic import Application, render_basic
    ctx = text.encode('utf8') if as_bytes else text
    app = Application([('/', lambda: ctx, render_basic)])
    resp = app.get_local_client().get('/')
    return not (resp.status_code == 200 and resp.get_data() == text.encode('utf8')
                and resp.mimetype in _expected_labels(text))


# ---- non-sized values
_INTS = list(range(-11, 12))
class _Plain(object):
    def __str__(self):
        return 'plain-object'


def _nonsized(kind, n):
    if kind == 4:
        return 0.5 if n > 0 else (-1.5 if n < 0 else 1e+20)   # float formatting is C code: concrete floats by case
    return [n, None, True, False, 0.5, _Plain(), -n][kind]


def ob_nonsized(kind: int, n: int) -> bool:
    v = _nonsized(kind, n)
    with _Stubbed():
        r = BasicRender().render_response(v, _Req(), None)
    return r.status_code == 200 and r.mimetype == P and r.response == str(v)


def confirm_nonsized(kind, n):
    from clastic import Application, render_basic
    v = _nonsized(kind, n)
    app = Application([('/', lambda: v, render_basic)])
    resp = app.get_local_client().get('/')
    return not (resp.status_code == 200 and resp.get_data(True) == str(v) and resp.mimetype == P)


# ---- sized values: which serializer is chosen
_SIZED = [{'a': 1}, [1, 2], (1, 2), [{'a': 1}, {'a': 2}], {}, [], {'k': [1, 2]}, set([1])]
_FMTS = [None, 'json', 'html', '', 'xml']


class _Marker(object):
    def __init__(self, name):
        self.name = name
        self.calls = []

    def __call__(self, *a):
        self.calls.append(a)
        return self.name


def ob_sized_choice(ctx: int, fmt: int, other: str, truthy: bool, choice: int) -> bool:
    """format=json|absent+no-accept -> JSON; format=html or Accept html -> table; unsupported format -> ValueError."""
    c = _SIZED[ctx]
    f = other if fmt == 5 else _FMTS[fmt]
    jr, tr = _Marker('json'), _Marker('table')
    br = BasicRender(json_render=jr, tabular_render=tr)
    try:
        out = br.render_response(c, _Req(fmt=f, truthy=truthy, choice=choice), 'ROUTE')
    except ValueError:
        return bool(f) and f != 'json' and f != 'html'      # only an unsupported explicit format may fail
    if f and f != 'json' and f != 'html':
        return False
    if f == 'json':
        want = 'json'
    elif f == 'html':
        want = 'table'
    else:
        # Accept decides; best_match over the renderer's mimetypes, in their order
        opts = list(br.mimetypes)
        picked = opts[choice] if (truthy and 0 <= choice < len(opts)) else None
        want = 'table' if picked == H else 'json'
    if out != want:
        return False
    if want == 'json':
        return jr.calls == [(c,)] and tr.calls == []
    return tr.calls == [(c, 'ROUTE')] and jr.calls == []


def tw_sized_choice(ctx: int, fmt: int, other: str, truthy: bool, choice: int) -> bool:
    c = _SIZED[ctx]
    jr, tr = _Marker('json'), _Marker('table')
    br = BasicRender(json_render=jr, tabular_render=tr)
    try:
        out = br.render_response(c, _Req(fmt=(other if fmt == 5 else _FMTS[fmt]), truthy=truthy, choice=choice), 'R')
    except ValueError:
        return False
    return out == 'table' and fmt != 2


# ---- JSON renderers
def _build(shape, a, b, flag):
    """JSON-native values from selectors + symbolic ints/bool."""
    return [a, [a, b], {'x': a, 'y': b}, None, flag, [flag, None, a], {'k': [a, {'z': b}]}, [], {},
            [[a], [b]], {'n': None, 't': flag}][shape]


def ob_json_roundtrip(shape: int, a: int, b: int, flag: bool, streaming: bool, dev: bool) -> bool:
    v = _build(shape, a, b, flag)
    with _Stubbed():
        r = JSONRender(streaming=streaming, dev_mode=dev)(v)
    body = ''.join(r.response)
    return r.status_code == 200 and r.mimetype == J and json.loads(body) == v


def ob_jsonp(shape: int, a: int, cb: str, flag: bool) -> bool:
    v = _build(shape, a, 7, flag)
    with _Stubbed():
        r = JSONPRender()(_Req(cb=cb), v)
    body = ''.join(r.response)
    if not cb:
        return r.mimetype == J and json.loads(body) == v
    if r.mimetype != 'application/javascript':
        return False
    if not (body.startswith(cb + '(') and body.endswith(');')):
        return False
    return json.loads(body[len(cb) + 1:-2]) == v


class _ToDict(object):
    def to_dict(self):
        return {'a': 1}


class _AsDict(object):
    def asdict(self):
        return {'b': 2}


class _Iso(object):
    def isoformat(self):
        return '2020-01-01'


class _Opaque(object):
    def __repr__(self):
        return '<opaque>'


def _gen():
    yield 1


_EXOTIC = [_ToDict(), _AsDict(), _Iso(), _Opaque(), set([1]), (1, 2), _gen, len, b'by', 1.5]
_EXOTIC_OK = [True, True, True, False, True, True, False, False, True, True]   # serialisable without dev mode?


def ob_exotic(kind: int, nest: int, dev: bool, rk: int = 0) -> bool:
    """dev mode never raises (repr fallback); non-dev raises TypeError only for non-serialisable objects.
    rk: 0 JSONRender, 1 JSONPRender without callback, 2 JSONPRender with callback, 3 streaming JSONRender"""
    kind, nest, rk = R(kind), R(nest), R(rk)
    dev = True if dev else False
    o = _EXOTIC[kind]
    v = [o, [o], {'k': o}, {'k': [o, 1]}][nest]
    with _Stubbed():
        try:
            if rk == 0:
                r = JSONRender(dev_mode=dev)(v)
            elif rk == 3:
                r = JSONRender(dev_mode=dev, streaming=True)(v)
            else:
                r = JSONPRender(dev_mode=dev)(_Req(cb='cb' if rk == 2 else None), v)
            body = ''.join(r.response)
            if rk == 2:
                body = body[len('cb('):-2]
        except TypeError:
            return (not dev) and (not _EXOTIC_OK[kind])
    json.loads(body)
    if not dev and not _EXOTIC_OK[kind]:
        return False
    return r.mimetype == (J if rk != 2 else 'application/javascript')


def tw_exotic(kind: int, nest: int, dev: bool, rk: int = 0) -> bool:
    o = _EXOTIC[kind]
    with _Stubbed():
        try:
            JSONRender(dev_mode=dev)([o])
        except TypeError:
            return True
    return False


# ---- the real HTML table renderer on tabular shapes (untraced after the selectors are realised: boltons.tableutils)
def _doc_ep(kind, result=None):
    """endpoints of every callable kind the framework accepts: functions with 6 docstring forms, then (6) a callable object
    that defines __eq__ and is therefore unhashable, (7) a bound method, (8) a mutable dataclass with __call__ (unhashable),
    (9) a callable object with a class docstring"""
    if kind == 6:
        class EqCallable(object):
            def __eq__(self, other):
                return isinstance(other, EqCallable)

            def __call__(self):
                return result
        return EqCallable()
    if kind == 7:
        class Holder(object):
            def method(self):
                "A bound method."
                return result
        return Holder().method
    if kind == 8:
        import dataclasses

        @dataclasses.dataclass
        class DataEP(object):
            limit: int = 3

            def __call__(self):
                return result
        return DataEP()
    if kind == 9:
        class Documented(object):
            "Callable object. With <b>markup</b> in its docstring."
            def __call__(self):
                return result
        return Documented()

    def ep():
        return result
    ep.__doc__ = [None, '', 'One line only.', 'First line.\n\n    Indented <b>second</b> paragraph & more.\n    ', '  leading space single',
                  'See https://example.com/x?a=1&b=2 for "details".'][kind]
    return ep


_TABULAR = [{'a': 1, 'b': 'x<y'}, [1, 2, 3], [{'a': 1, 'b': 2}, {'a': 3, 'b': 4}], [[1, 2], [3, 4]], {}, [], ('t', 'u'), {'k': '<script>'}]


class _RouteStub(object):
    def __init__(self, ep):
        self.endpoint = ep


def ob_table(ctx: int, doc: int, via_accept: bool, with_route: bool) -> bool:
    """format=html / Accept html on tabular shapes: a 200 text/html table, whatever the endpoint's docstring."""
    ctx, doc = R(ctx), R(doc)
    via_accept, with_route = (True if via_accept else False), (True if with_route else False)
    with untraced():
        from werkzeug.wrappers import Response
        c = _TABULAR[ctx]
        req = _Req(fmt=None if via_accept else 'html', truthy=via_accept, choice=0)
        r = BasicRender().render_response(c, req, _RouteStub(_doc_ep(doc)) if with_route else None)
        if not isinstance(r, Response) or r.status_code != 200 or r.mimetype != 'text/html':
            return False
        body = r.get_data(True)
        if '<table' not in body:
            return False
        if '<script>' in body or 'x<y' in body:
            return False
        return True


def confirm_table(ctx, doc, via_accept, with_route):
    from clastic import Application, render_basic
    c = _TABULAR[ctx]
    ep2 = _doc_ep(doc, c)
    app = Application([('/', ep2, render_basic)])
    cl = app.get_local_client()
    resp = cl.get('/', headers={'Accept': 'text/html'}) if via_accept else cl.get('/?format=html')
    return not (resp.status_code == 200 and resp.mimetype == 'text/html' and '<table' in resp.get_data(True))


JSON_DOCS = ['{"body": "<html>"}', '["<html"]', '{"a": "<!doctype html><html><body>x</body></html>"}', '[1, 2, "<html lang=en>"]', '{"k": 1}', '[]',
             '{"pad": "%s", "h": "<html>"}' % ('x' * 200)]


def ob_json_with_html(doc_i: int, as_bytes: bool) -> bool:
    """a serialized JSON object/array stays application/json even when a string inside it mentions <html"""
    with untraced():
        text = JSON_DOCS[doc_i]
        with _Stubbed():
            r = BasicRender().render_response(text.encode('utf8') if as_bytes else text, _Req(), None)
        return r.status_code == 200 and r.mimetype == J and r.response == text.encode('utf8')


def confirm_json_with_html(doc_i, as_bytes):
    return _confirm_text(JSON_DOCS[doc_i], as_bytes) if False else not _plain_label(JSON_DOCS[doc_i], as_bytes)


def _plain_label(text, as_bytes):
    from clastic import Application, render_basic
    ctx = text.encode('utf8') if as_bytes else text
    app = Application([('/', lambda: ctx, render_basic)])
    resp = app.get_local_client().get('/')
    return resp.status_code == 200 and resp.mimetype == J
