"""C09 harnesses: HTTPException serialisations (escaping), format table, negotiation, status codes."""
from typing import List, Tuple
import http
import json
import re
import clastic.errors as E
from clastic.errors import HTTPException, ERROR_CODE_MAP, MIME_SUPPORT_MAP, ErrorHandler, NotFound, InternalServerError, MethodNotAllowed
from clastic.application import default_render_error
from harness.util import R, untraced

ALPHA = '<>&"\'{}ah:/'
_ESC = {'&': '&amp;', '<': '&lt;', '>': '&gt;', '"': '&quot;', "'": '&#x27;'}


def esc(s):
    """independent escaper: per-character map"""
    return ''.join(_ESC.get(c, c) for c in s)


def _bare(detail, message, error_type, code=418):
    """an HTTPException without running BaseResponse.__init__ (rule R2): the to_* methods only read these fields"""
    e = HTTPException.__new__(HTTPException)
    e.detail, e.message, e.error_type, e.code = detail, message, error_type, code
    return e


def _fields(field, s):
    d, m, t = 'some detail', 'A message', None
    if field == 0:
        d = s
    elif field == 1:
        m = s
    elif field == 2:
        t = s
    else:
        t = 'http' + s        # the link form of error_type
    return d, m, t


def spec_html(d, m, t, code):
    lines = ['<!doctype html><html>', '<head><title>%s - %s</title></head>' % (code, esc(m)), '<body><h1>%s</h1>' % esc(m)]
    if d:
        lines.append('<p>%s</p>' % esc(d))
    if t:
        if esc(t).startswith('http'):
            lines.append('<p>Error type: <a target="_blank" href="%s">%s</a></p>' % (esc(t), esc(t)))
        else:
            lines.append('<p>Error type: %s</p>' % esc(t))
    lines.append('</body></html>')
    return '\n'.join(lines)


def spec_xml(d, m, t, code):
    return ('<http_error><code>%s</code><message>%s</message><detail>%s</detail><error_type>%s</error_type></http_error>'
            % (code, esc(m), esc(d), esc(t) if t is not None else ''))


def ob_html(field: int, s: str) -> bool:
    """to_html(): exactly the fixed template with every dynamic field escaped character by character"""
    d, m, t = _fields(R(field), s)
    return _bare(d, m, t).to_html() == spec_html(d, m, t, 418)


def ob_xml(field: int, s: str) -> bool:
    d, m, t = _fields(R(field), s)
    return _bare(d, m, t).to_xml() == spec_xml(d, m, t, 418)


def tw_html(field: int, s: str) -> bool:
    d, m, t = _fields(R(field), s)
    return '&lt;' in _bare(d, m, t).to_html()


def confirm_html(field, s):
    d, m, t = _fields(field, s)
    e = HTTPException(d, message=m, error_type=t, code=418, mimetype='text/html')
    x = HTTPException(d, message=m, error_type=t, code=418, mimetype='application/xml')
    return e.get_data(True) != spec_html(d, m, t, 418) or x.get_data(True) != spec_xml(d, m, t, 418)


def ob_nonstr_detail(kind: int, n: int) -> bool:
    """non-text details go through the repr fallback and are escaped as well"""
    kind, n = R(kind), R(n)
    with untraced():
        return _nonstr(kind, n)


def _nonstr(kind, n):
    v = [n, None, b'<b>', ['<i>', n], {'k': '<u>'}, 1.5, True][kind]
    e = _bare(v, 'M', None)
    want = '' if v is None else esc(repr(v))
    h = e.to_html()
    x = e.to_xml()
    if v is None:
        return '<p>' not in h and '<detail></detail>' in x
    return ('<p>%s</p>' % want) in h and ('<detail>%s</detail>' % want) in x and '<b>' not in h and '<i>' not in h and '<u>' not in x


# ---- format table / Content-Type / negotiation / status (all selectors: native runs after realisation)
CODES = sorted(c for c in ERROR_CODE_MAP if c)
MIMES = ['text/html', 'application/json', 'text/plain', 'application/xml', None, 'image/png', '', 'text/HTML', 'application/*']
DETAILS = ['plain', '<b>bold</b> & "q"', 'é\x00 ', '']
DETAILS += ['a' * n + '<&>"\'' * 4 for n in (4085, 4088, 4090, 4092)] + ['&' * 5000]


def _snake(name):
    s = re.sub(r'([a-z])([A-Z])', r'\1_\2', name)
    s = re.sub(r'([A-Z]+)([A-Z][a-z])', r'\1_\2', s)
    return s.upper()


_ALIASES = {'HTTPVERSION_NOT_SUPPORTED': 'HTTP_VERSION_NOT_SUPPORTED', 'REQUEST_URITOO_LONG': 'REQUEST_URI_TOO_LONG',
            'IM_ATEAPOT': 'IM_A_TEAPOT'}


def _check_formats(code_i, mime_i, det_i, given_code):
    cls = ERROR_CODE_MAP[CODES[code_i]]
    det = DETAILS[det_i]
    kw = {}
    if given_code:
        kw['code'] = 470 + code_i
    try:
        e = cls(det or None, **kw)
    except TypeError:
        e = cls(**kw)
    want_code = kw.get('code', cls.code)
    if e.status_code != want_code or e.code != want_code:
        return False
    # the class code is the standard one of its error type (independent table: http.HTTPStatus by name)
    if cls.__module__ == 'clastic.errors' and not cls.__name__.startswith('Contextual'):
        nm = _snake(cls.__name__)
        nm = _ALIASES.get(nm, nm)
        st = getattr(http.HTTPStatus, nm, None)
        if st is None or st.value != cls.code:
            return False
    m = MIMES[mime_i]
    e.adapt(m)
    fmt = {'text/html': 'html', 'application/json': 'json', 'text/plain': 'text', 'application/xml': 'xml'}.get(m, 'text')
    body = e.get_data(True)
    if body != getattr(e, 'to_' + fmt)():
        return False
    ct = e.headers.get('Content-Type', '')
    exp_ct = m if m in ('text/html', 'application/json', 'text/plain', 'application/xml') else 'text/plain'
    if not ct.startswith(exp_ct):
        return False
    if fmt == 'json':
        j = json.loads(body)
        if j.get('code') != want_code or j.get('message') != e.message or j.get('detail') != e.detail or 'error_type' not in j:
            return False
    if fmt in ('html', 'xml') and det and '<b>' in det:
        if '<b>' in body or '"q"' in body:
            return False
    if fmt == 'xml':
        import xml.dom.minidom
        if '\x00' not in (e.detail or ''):
            xml.dom.minidom.parseString(body.encode('utf8'))
    return True


def ob_formats(code_i: int, mime_i: int, det_i: int, given_code: bool) -> bool:
    with untraced():
        return _check_formats(code_i, mime_i, det_i, given_code)


def confirm_formats(code_i, mime_i, det_i, given_code):
    try:
        return not _check_formats(code_i, mime_i, det_i, given_code)
    except Exception:
        return True


class _Accept(object):
    def __init__(self, choice):
        self.choice = choice

    def best_match(self, options, default=None):
        opts = list(options)
        return opts[self.choice] if 0 <= self.choice < len(opts) else default   # contract: an element of its argument, or `default` (None unless given)


class _Req(object):
    def __init__(self, choice):
        self.accept_mimetypes = _Accept(choice)


PRE = [None, 'text/html', 'application/json', 'application/xml', 'text/plain']
_MAP0 = dict(MIME_SUPPORT_MAP)          # the four formats, as imported


def _check_negotiation(code_i, choice, which, pre_i=0):
    if dict(MIME_SUPPORT_MAP) != _MAP0:
        MIME_SUPPORT_MAP.clear()          # whatever an earlier case left behind: every case starts from the imported table
        MIME_SUPPORT_MAP.update(_MAP0)
    cls = ERROR_CODE_MAP[CODES[code_i]]
    e = cls()
    if pre_i in (1, 2, 3, 4):
        e.adapt(PRE[pre_i])          # e.g. a shared instance already served to another client, or mimetype= at construction
    elif pre_i == 5:
        try:
            e = cls(mimetype='application/json')
        except TypeError:
            e = cls()
    elif pre_i == 6:
        e.adapt('text/csv')          # an unsupported type asked for earlier: plain text, and nothing is remembered
        if not e.headers['Content-Type'].startswith('text/plain'):
            return False
    if dict(MIME_SUPPORT_MAP) != _MAP0:
        return False
    req = _Req(choice)
    if which == 0:
        out = ErrorHandler().render_error(req, e)
    else:
        out = default_render_error(req, e)
    if out is not e:
        return False
    opts = list(MIME_SUPPORT_MAP)
    m = opts[choice] if 0 <= choice < len(opts) else None
    fmt = MIME_SUPPORT_MAP.get(m, 'text')
    return out.get_data(True) == getattr(e, 'to_' + fmt)() and out.headers['Content-Type'].startswith(m or 'text/plain') \
        and out.status_code == cls.code and dict(MIME_SUPPORT_MAP) == _MAP0


def ob_negotiation(code_i: int, choice: int, which: int, pre_i: int = 0) -> bool:
    with untraced():
        return _check_negotiation(code_i, choice - 1, which, pre_i)


def confirm_negotiation(code_i, choice, which, pre_i=0):
    return not _check_negotiation(code_i, choice - 1, which, pre_i)


def _real_accept(acc_i, code_i):
    """validation leg: real Accept headers through werkzeug's negotiation"""
    from werkzeug.wrappers import Request
    from werkzeug.test import EnvironBuilder
    ACC = [None, 'text/html', 'application/json', 'application/xml', 'text/plain', '*/*', 'image/png', 'text/html;q=0.1, application/json',
           'application/xml;q=0', '', 'garbage;;;', 'text/*', 'text/csv, application/json;q=0.9', 'application/pdf, application/xml;q=0.2']
    hdrs = {} if ACC[acc_i] is None else {'Accept': ACC[acc_i]}
    req = Request(EnvironBuilder(path='/', headers=hdrs).get_environ())
    # earlier in the process: errors built with / adapted to unsupported types, and one instance served as HTML before
    try:
        NotFound(mimetype='text/csv')
    except Exception:
        pass
    NotFound().adapt('application/pdf')
    e = ERROR_CODE_MAP[CODES[code_i]]()
    if acc_i % 2:
        e.adapt('text/html')
    out = ErrorHandler().render_error(req, e)
    ct = out.headers['Content-Type'].split(';')[0]
    fmt = MIME_SUPPORT_MAP.get(ct)
    if fmt is None:
        return False
    if out.get_data(True) != getattr(out, 'to_' + fmt)():
        return False
    if ACC[acc_i] in ('image/png', 'application/xml;q=0') and ct != 'text/plain':
        return False
    if ACC[acc_i] in ('text/html', 'application/json', 'application/xml', 'text/plain') and ct != ACC[acc_i]:
        return False
    if ACC[acc_i] in (None, '', 'garbage;;;') and ct != 'text/plain':
        return False
    if ACC[acc_i] == 'text/csv, application/json;q=0.9' and ct != 'application/json':
        return False
    if ACC[acc_i] == 'application/pdf, application/xml;q=0.2' and ct != 'application/xml':
        return False
    return True
